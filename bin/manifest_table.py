NA = {}
TB = "Go toolchain; tools/instr rewriter (output type-checked by the build); vos device semantics (validated against the kernel by vos-conformance); the Go reference model of the check"
add("C08", "exploration", "bounded-exhaustive enumeration of write histories against a reference interval map",
    "every history of <=2 (thorough <=3) write requests over an 8-slot alphabet per timeframe, all 11 timeframes, all column types; the real write path and query path run on the in-memory device and every all-time query result is compared with a last-writer-wins map. Small-scope exhaustive, not a proof.",
    TB + "; timezone UTC; BackgroundSync=false", "seqmc")
