NA = {}
TB = "Go toolchain; tools/instr rewriter (output type-checked by the build); vos device semantics (validated against the kernel by vos-conformance); the Go reference model of the check"
add("C08", "exploration", "bounded-exhaustive enumeration of write histories against a reference interval map",
    "every history of <=2 (thorough <=3) write requests over an 8-slot alphabet per timeframe, all 11 timeframes, all column types; the real write path and query path run on the in-memory device and every all-time query result is compared with a last-writer-wins map. Small-scope exhaustive, not a proof.",
    TB + "; timezone UTC; BackgroundSync=false", "seqmc")
SW = "Go toolchain; the reference arithmetic in the check (interval = elapsed time from local Jan 1, daily interval = local calendar day)"
add("C10", "exploration", "exhaustive sweep of the encode/decode function pair (all 10^9 offsets of a 1-second interval in thorough)",
    "the write path's tick encoder composed with the read path's decoder is evaluated on every nanosecond offset of a 1-second interval at three positions in the year (thorough) and on boundary grids plus strided sweeps for the other ten timeframes; same-interval, <=1 step earlier, order preservation (adjacent enumerated offsets) and exactness for 1Sec are checked on every evaluation. For 1Sec this is complete over the value domain.",
    SW, "seqmc")
add("C30", "exploration", "exhaustive enumeration of every interval slot of 4 years x 5 zones x 11 timeframes",
    "every slot (thorough; quick restricts sub-minute timeframes to the days around year edges, DST switches and the leap day) is mapped time->index->time and index->offset; bijection, stamping and in-file bounds are checked per slot",
    SW + "; zones with a permanent offset change inside a year are outside the alphabet", "seqmc")
add("C31", "exploration", "exhaustive enumeration of duration strings x hourly instants and window edges",
    "every accepted <n><suffix> string x 5 zones x 4 years x every hour (thorough: 10 minutes) plus +-1 ns around every window edge; window laws, parse/print fixed point and queryable-timeframe divisibility", SW, "seqmc")
add("C27", "exploration", "bounded-exhaustive enumeration of typed column series through the real encode -> msgpack -> decode path",
    "all schemas of <=2 (thorough <=3) columns over the 11 wire types x lengths 0-3 x 1-3 buckets with boundary values (NaN, infinities, extremes) are round-tripped and compared bitwise", TB, "seqmc")
add("C28", "exploration", "bounded-exhaustive enumeration of schema/payload shapes through the real write path and the WAL record codec",
    "schema shapes (name lengths up to 300, up to 256 columns) x fixed/variable x payload sizes are written through the server, the WAL record is located with an independent decoder and decoded by ParseTGData; plus synthetic multi-command transactions with extreme offsets for the shapes the write path accepts",
    TB + "; export hook VerifSerializeTG", "seqmc")
add("C29", "exploration", "bounded-exhaustive enumeration of schemas x rows x alignment through SerializeColumnsToRows -> RowSeries.ToColumnSeries",
    "all 1463 schemas of <=3 columns over the fixed-width types x 0-3 rows x align on/off, boundary values, bitwise comparison of names, order, element types and values", TB, "seqmc")
AG = "Go toolchain; the group-by reference model in the check; aggregates driven through sqlparser.AggRunner.Run as the query pipeline does"
add("C21", "exploration", "bounded-exhaustive enumeration of ordered row sequences against a group-by-window reference",
    "every ordered sequence of <=3 rows (thorough adds length 4) over 6 instants x 5 prices, 8 candle timeframes, tick and candle inputs with Sum/Avg columns; candles compared with a reference that admits any earliest/latest row for open/close on timestamp ties", AG + "; UTC", "seqmc")
add("C22", "exploration", "bounded-exhaustive differential check of composed vs direct aggregation",
    "the C21 sequences x 7 (fine, coarse) pairs: candlecandler(coarse) over tickcandler(fine) output vs tickcandler(coarse) directly", AG + "; UTC", "seqmc")
add("C23", "exploration", "bounded-exhaustive enumeration of typed columns and epoch sequences against reference aggregates",
    "every tuple of length 0-3 (thorough 0-4) over each numeric type's boundary alphabet for count/min/max/avg, every difference sequence of length <=4 x 6 thresholds for gap", AG, "seqmc")
add("C09", "exploration", "bounded-exhaustive enumeration of variable-record write histories against a record bag",
    "every history of <=2 (thorough <=3) requests over a 16-symbol record alphabet (4 intervals incl. year edges x 4 sub-interval offsets incl. +1 ns and end-1 ns) for 1Sec/1Min/1H/1D, plus n identical records up to 20000 (compressibility axis); after each request the all-time query must return every record once, in time order, inside its interval and at most one resolution step early",
    TB + "; UTC; BackgroundSync=false", "seqmc")
add("C11", "exploration", "exhaustive enumeration of (start,end) pairs over a boundary alphabet on stored fixtures, differential against the unrestricted query",
    "6 stored histories (fixed/variable, 1Sec/1Min/1D, year edge, two records in one interval) x all ordered pairs over ~35-50 boundary instants (every stored timestamp, interval edges and midpoints, year edges, each +-1 ns, epoch 0, default end) incl. empty and inverted ranges; expected = unrestricted result filtered by the statement's definition",
    TB + "; UTC", "seqmc")
add("C12", "exploration", "bounded-exhaustive enumeration of ranges x N x direction, differential against the unlimited query",
    "the C11 fixtures x 12 ranges (thorough: every 3rd start x every 2nd end) x N in 1..rows+2 x both directions; limited result must be the prefix/suffix of the unlimited result",
    TB + "; UTC", "seqmc")
add("C13", "exploration", "bounded-exhaustive enumeration of symbol lists x column lists through DataService.Query, differential against single-symbol queries",
    "every ordered subset of 3 same-schema symbols (also with a missing symbol, with a retyped symbol, and '*') x every ordered column tuple of length 0-3 over {Open,Close,Volume,Nope}, fixed and variable buckets; per symbol the rows, column set and values must equal the single-symbol query",
    TB + "; UTC", "seqmc")
add("C14", "exploration", "bounded-exhaustive enumeration of (bucket schema, input schema, request shape) against a conversion reference",
    "all 100 type pairs (quick: diagonal + 3 rows/columns) x 27 schema relations (same, missing, extra, renamed, reordered, each column retyped to each type) x request shapes (alone / with a well-formed bucket processed before / after); boundary values restricted to conversions the Go spec defines; rejected requests are followed by another flush to expose queued leftovers",
    TB + "; UTC", "seqmc")
add("C15", "exploration", "bounded-exhaustive enumeration of creatable schemas x later writes x restart on the same device",
    "column counts up to 1024 x name lengths up to 256 (1Min, 1D), every type x every timeframe, fixed/variable, explicit create and create-by-first-write, later write none / mid-year / first interval of the year; the server is restarted on the device image and must report and enforce exactly the created schema",
    TB + "; UTC", "seqmc")
add("C16", "exploration", "bounded-exhaustive enumeration of key strings x operations with a before/after hash of everything outside the root",
    "all 11110 keys of 1-4 components over a 10-symbol alphabet ('..', '.', empty, absolute-looking, spaces, '*', ',', ':') x create/write/query/getinfo/destroy plus create-then-destroy and write-then-destroy for '..' keys, on an in-memory device holding bucket-shaped trees around the root",
    "Go toolchain; rewriter; vos path resolution (filepath.Clean, no symlinks)", "seqmc")
add("C17", "model_checking", "explicit-state breadth-first search over operation sequences on the real catalog, successors by replay (+ schedule exploration of concurrent operations, see DESIGN)",
    "BFS over 24 operations (4 keys x create schema 1|2, write year 2021|2022, destroy, query) to depth 3 (thorough 5) with de-duplication by canonical state (files, header schemas, directory tree); concurrent part: three thread sets of catalog operations under the controlled scheduler, ALL schedules with <=2 deviations (thorough 3); invariant in every state / end state: catalog listing = device scan = freshly loaded catalog, every existing bucket queryable",
    TB + "; canonical state abstraction (stated in the evidence)", "seqmc")
CR = TB + "; process-crash model = every completed syscall is in the image; scripted scheduler drives the real SyncWAL loop (BackgroundSync on) deterministically; payload tags attribute every recovered row to one issued write"
add("C01", "fault_enumeration", "exhaustive enumeration of crash points (every device-operation prefix) of bounded write histories, restart through the real startup path",
    "every history of <=2 (thorough <=3) operations over a 10-operation alphabet (fixed/variable/multi-bucket/new-bucket/new-year writes, WAL and checkpoint timer ticks, rotation interval 1|2) plus 8 curated longer ones, run on the real write path; for EVERY prefix of the device log the image is restarted (twice) and every acknowledged write must be returned", CR, "crashmc")
add("C02", "fault_enumeration", "same crash-point enumeration as C01, oracle = no duplicate / phantom / partial transaction",
    "same histories and crash points as C01; every recovered row must be attributable to an issued write, variable records appear exactly as often as written, an in-flight request is applied entirely or not at all, and a second restart changes nothing", CR, "crashmc")
add("C03", "fault_enumeration", "crash-point enumeration plus power-loss pattern enumeration, oracle = restart succeeds and existing buckets stay queryable",
    "the C01 crash points plus, for every prefix, every loss/tear pattern of the un-synced data writes (all subsets when <=6 are volatile; otherwise none/all/singletons/complements/per-file; tears at 512-byte boundaries and midpoints); startup must not panic/exit/fail and every bucket whose creating call had returned must answer an all-time query", CR + "; power-loss model: data volatile until fsync(file)/sync(), metadata journalled", "crashmc")
add("C04", "fault_enumeration", "power-loss pattern enumeration over every crash prefix, oracle = acknowledged writes recovered",
    "for every prefix of the device log of every history, every loss/tear pattern of the data writes not yet covered by fsync/sync (bounded as stated in the evidence) is applied, the server restarted and every acknowledged write must be returned", CR + "; power-loss model: data volatile until fsync(file)/sync(), metadata journalled, lost extension reads as zeros", "crashmc")
add("C06", "exploration", "exhaustive byte-level mutation enumeration of real WAL files, each mutant restarted through the real startup path",
    "4 WAL files written by the real write path; truncation at every offset, substitution of every byte by 8 (thorough 256) values, 1/2/8-byte insertions at every offset, every length/id field set to 10 extreme values, duplication/swap of every message, every header status pair; oracle: no panic, no hang, applied set between must and may, checkpointed data intact, nothing outside the root",
    TB + "; independent WAL decoder (mc/walfmt.go) to locate records", "seqmc")
add("C34", "model_checking", "explicit-state search of the restart graph: crash points of histories x crash points of the startup itself, every state closed by a real startup",
    "states = device images with the server down, de-duplicated by content hash; level 1 = 5 histories crashed at every device-operation prefix (+ planted empty/header-only/replayed/unparsable WAL files), level 2 = a startup crashed at every one of its own device operations, level 3 (thorough) = a second crashed startup; invariant evaluated in every state by a complete startup: every acknowledged or committed row of a still-existing bucket visible, own WAL untouched, no foreign WAL left, a further restart writes nothing",
    CR + "; independent WAL/TG decoder", "crashmc")
SC = "Go toolchain; tools/instr rewriter (every channel/select/go/sync/time operation and every statement mentioning a package-level variable of the instrumented packages becomes a scheduling point; output type-checked by the build); vos device ops as scheduling points; cooperative scheduler (no memory-model effects); determinism double-run and prefix-divergence checks"
add("C07", "model_checking", "stateless deviation-bounded DFS over thread interleavings of the real SyncWAL loop and writers under a controlled scheduler",
    "real SyncWAL goroutine + 2 (and 3) writers + WAL timer; ALL schedules with <=2 deviations (thorough: 3 for 2 writers) from the default run-until-block schedule; at the step a request returns the durable WAL view (content as of its last fsync, rebuilt from the device log) must hold a committed checksum-valid transaction with the writer's row and a query must see it",
    SC, "schedmc")
add("C18", "model_checking", "stateless deviation-bounded DFS over interleavings of writers and readers on the real server (device operations are scheduling points) with vector-clock happens-before race detection on every explored schedule",
    "four thread sets (two writers into one variable interval + reader; two writers on one fixed interval + reader; writer + two readers; writer adding a year file + reader) with the real SyncWAL loop and WAL timer; ALL schedules with <=2 deviations (thorough 3); every query result must be error-free, torn-free (two tag columns equal), from issued writes, without duplicates. Data races: reads/writes of struct fields and package-level variables of the instrumented packages are tracked against the happens-before order induced by the code's own synchronisation only (mutexes, RW-mutexes, wait groups, once, channels, go); two conflicting unordered accesses in any explored schedule are a violation, and accesses found racy in the discovery pass become scheduling points.",
    SC + "; race detection covers field and package-variable accesses of the instrumented packages (not slice/map elements, not code of third-party packages)", "schedmc")
add("C35", "model_checking", "stateless deviation-bounded DFS over interleavings of writers, timers and the graceful Shutdown, followed by a real restart on the captured image",
    "real SyncWAL loop + fixed writer + variable writer + Shutdown thread (+ checkpoint timer with rotation); ALL schedules with <=2 deviations (thorough 3); when Shutdown returns the query results and the device image are captured atomically, the image is restarted through the real startup path and the results compared",
    SC + "; the process exits when Shutdown returns", "schedmc")
add("C05", "model_checking", "stateless deviation-bounded DFS over interleavings of the SyncWAL loop's events x exhaustive crash-prefix enumeration of every distinct device log, plus a WAL protocol model as trace acceptor with rule-directed power-loss witnesses",
    "real SyncWAL loop + writer with two writes to one interval + variable writer + WAL/checkpoint timers (rotation every / every 2nd checkpoint) + optional Shutdown; ALL schedules with <=2 deviations (thorough 3); every distinct device log is crashed at every prefix and restarted through the real startup path; every log is run through the protocol model (R2/R4/R5), a broken rule triggers the power-loss witness for that rule and the end-to-end oracle decides (rules are hints, never verdicts)",
    SC + "; WAL protocol model in checks/c05.go (conformance: every implementation trace is accepted or produces an executed witness)", "schedmc")
add("C32", "model_checking", "bounded-exhaustive write histories (scripted real SyncWAL loop) plus deviation-bounded DFS over writer/dispatcher interleavings, against a reference glob matcher",
    "sequential: all histories of <=3 writes over 4 buckets x 2 intervals with recording triggers on 4 patterns; concurrent: real SyncWAL loop + trigger dispatcher + two writers, ALL schedules with <=2 deviations (thorough 3); after the graceful shutdown drained the dispatcher the deliveries must equal: every acknowledged record once per matching trigger (component-wise, anchored), nothing else",
    SC, "schedmc")
add("C26", "model_checking", "stateless deviation-bounded DFS over interleavings of the real replication Sender, stream handlers and disconnect points (environment choices)",
    "real Sender.Run goroutine + committer + two real GetWALStream handlers on fake gRPC streams whose Send may fail at any explorer-chosen point; ALL schedules and disconnect points with <=2 deviations (thorough 3); no panic, no deadlock, in-order delivery, and a connected replica registered before commit i receives i, i+1, ...",
    SC + "; gRPC transport replaced by a fake stream", "schedmc")
add("C25", "exploration", "bounded-exhaustive enumeration of (write history, grouping into transactions), master vs replica differential through the real Replayer",
    "every history of <=3 writes over 5 bucket kinds (fixed 1Min/1D, variable 1Sec/1Min/1H) x every partition into consecutive groups flushed as ONE transaction by the real SyncWAL loop (scheduler policy: all writers of a group queue first), so mixed fixed/variable transactions occur; captured transactions are applied on a replica server via ParseTGData + WriteCSM and all buckets compared over three ranges",
    TB + "; two server instances on one device; scripted scheduler policy", "seqmc")
add("C33", "exploration", "bounded-exhaustive enumeration of CSV files with one fault at every (row, field) position x chunk sizes, through the real client load handler and loader",
    "files of 0-3 rows, fault-free or with one of 5 fault kinds at every position; imported through session.(*Client).load (API client bound to the server) and through loader.CSVtoNumpyMulti with chunk sizes 1,2,3,1000; header row and column-name-map variants; success without every row in the bucket is a violation",
    TB + "; export hook VerifLoad", "seqmc")
add("C19", "exploration", "bounded-exhaustive enumeration of WHERE atoms and their ordered conjunctions through the real SQL pipeline against a reference filter",
    "~195 atoms per fixture (3 columns x 5 operators x 6 bound positions, Epoch bounds in 3 encodings, BETWEEN over bound pairs) on a fixed 1Min and a variable 1H bucket; every atom alone and every ordered conjunction with a representative second atom (thorough: EVERY ordered pair, ~76000 statements) through BuildQueryTree -> Materialize; expected = stored rows filtered by the statement's semantics (BETWEEN strict)",
    TB + "; UTC", "seqmc")
add("C20", "exploration", "bounded-exhaustive enumeration of select lists x aliases, LIMIT values and INSERT INTO sources/targets through the real SQL pipeline",
    "every ordered list of 1-3 distinct columns x every alias subset (with/without WHERE), SELECT * with LIMIT 0..rows+1 (with/without WHERE), INSERT INTO a same-timeframe and a 5Min target for every datetime-string Epoch atom of C19; relational reference (projection, rename, prefix; target = selected rows truncated to the target timeframe, last wins)",
    TB + "; UTC", "seqmc")
add("C24", "exploration", "bounded-exhaustive enumeration of base-bar write histories with the real aggregation trigger, compared with a recomputation from the stored base bars",
    "destinations [5Min] and [5Min,15Min]; writes = ordered lists of 1-3 bars over a 6-slot grid spanning three windows (ascending and descending); every history of <=2 writes (thorough: + 3 writes of 1-2 bars); after every write the real SyncWAL loop, dispatcher and trigger run to quiescence (scripted scheduler) and each destination bucket must equal the group-by over the base bars currently stored",
    TB + "; scripted scheduler; UTC", "seqmc")
