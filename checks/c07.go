package checks

import (
	"fmt"
	"strings"
	"time"

	"github.com/alpacahq/marketstore/v4/verif/mc"
	"github.com/alpacahq/marketstore/v4/verif/rt/vos"
	"github.com/alpacahq/marketstore/v4/verif/rt/vrt"
	"github.com/alpacahq/marketstore/v4/verif/world"
)

// C07 A write returns only after it is durable and visible.

// walViews returns the current and the durable (as of the last fsync of that file) content of the
// newest WAL file of the device, reconstructed from the device log.
func walViews(d *vos.Device) (path string, cur, durable []byte) {
	log := d.Log()
	for _, op := range log {
		if op.Kind == vos.OpCreate && strings.HasSuffix(op.Path, ".walfile") {
			path = op.Path
		}
	}
	for _, op := range log {
		if op.Path != path {
			continue
		}
		switch op.Kind {
		case vos.OpWrite:
			if n := int(op.Off) + len(op.Data); n > len(cur) {
				cur = append(cur, make([]byte, n-len(cur))...)
			}
			copy(cur[op.Off:], op.Data)
		case vos.OpTruncate:
			if int(op.Off) < len(cur) {
				cur = cur[:op.Off]
			} else {
				cur = append(cur, make([]byte, int(op.Off)-len(cur))...)
			}
		case vos.OpFsync:
			durable = append([]byte{}, cur...)
		}
	}
	return path, cur, durable
}

// committedTags lists the payload tags of the checksum-valid, WAL-committed transactions in a WAL image.
func committedTags(wal []byte) map[int32]bool {
	out := map[int32]bool{}
	msgs := mc.DecodeWAL(wal)
	committed := map[int64]bool{}
	for _, m := range msgs {
		if m.Kind == "TI" && m.Dest == 0 && m.Status == 2 {
			committed[m.TGID] = true
		}
	}
	for _, m := range msgs {
		if m.Kind == "TG" && committed[m.TGID] {
			if rows, ok := decodeTGRows(m.Body); ok {
				for _, r := range rows {
					out[r.tag] = true
				}
			}
		}
	}
	return out
}

func hasTag(tab *world.Table, tag int32) bool {
	vi := tab.Col("V")
	if vi < 0 {
		return false
	}
	for _, r := range tab.Rows {
		if t, ok := r[vi].(int32); ok && t == tag {
			return true
		}
	}
	return false
}

const c07Key = "A/1H/X"

func c07Scenario(nWriters int) *scenario {
	t0 := time.Date(2021, 3, 1, 10, 0, 0, 0, time.UTC)
	return &scenario{
		name: fmt.Sprintf("SyncWAL + %d writers to one bucket + WAL timer", nWriters),
		cfg: nil,
		body: func(x *execCtx) {
			vrt.Branching(false) // setup (startup, pre-population) runs on the default schedule only
			w, obs := world.Start(world.Config{BackgroundSync: true})
			if !obs.OK() {
				x.failed = "startup: " + obs.String()
				return
			}
			x.w = w
			vrt.Quiesce()
			// the bucket exists before the concurrent part (one sequential write)
			if err := w.WriteCS(c07Key, csFixed([]time.Time{t0}, []string{"V"}, []any{[]int32{1}}), false); err != nil {
				x.failed = "setup write: " + err.Error()
				return
			}
			vrt.Quiesce()
			vrt.Branching(true)
			vrt.AllowTimer(tickWALd, 1) // the WAL flush timer may fire early once during the concurrent part
			var ths []*vrt.Thread
			for i := 1; i <= nWriters; i++ {
				i := i
				tag := int32(100 * i)
				ths = append(ths, vrt.Spawn(fmt.Sprintf("W%d", i), func() {
					err := w.WriteCS(c07Key, csFixed([]time.Time{t0.Add(time.Duration(i) * time.Hour)}, []string{"V"}, []any{[]int32{tag}}), false)
					// --- the step in which the write request returns ---
					_, cur, dur := walViews(x.dev)
					inWAL, inDur := committedTags(cur)[tag], committedTags(dur)[tag]
					var vis bool
					var qerr error
					if tab, e := w.QueryAll(c07Key); e == nil {
						vis = hasTag(tab, tag)
					} else {
						qerr = e
					}
					x.note("W%d returned err=%v inWAL=%v durable=%v visible=%v qerr=%v", i, err, inWAL, inDur, vis, qerr)
					x.data[fmt.Sprintf("W%d", i)] = [4]bool{err == nil, inWAL, inDur, vis}
				}))
			}
			vrt.Join(ths...)
		},
		judge: func(x *execCtx, sch *vrt.Sched) (vs []mc.Violation) {
			for i := 1; i <= nWriters; i++ {
				r, ok := x.data[fmt.Sprintf("W%d", i)].([4]bool)
				if !ok || !r[0] {
					continue // did not return success: nothing promised
				}
				switch {
				case !r[1]:
					vs = append(vs, mc.Violation{Sig: "not-durable|not-in-wal-at-return", What: fmt.Sprintf("writer W%d's request returned success but no committed transaction with its row is in the WAL yet (%v)", i, x.obs)})
				case !r[2]:
					vs = append(vs, mc.Violation{Sig: "not-durable|wal-not-synced-at-return", What: fmt.Sprintf("writer W%d's request returned success; its transaction is in the WAL but not covered by an fsync (%v)", i, x.obs)})
				}
				if !r[3] {
					vs = append(vs, mc.Violation{Sig: "not-visible-at-return", What: fmt.Sprintf("writer W%d's request returned success but a query started afterwards does not see its row (%v)", i, x.obs)})
				}
			}
			// outcome class: who returned first and how many transactions the WAL holds (vacuity guard: the
			// interleavings must actually produce different commit groupings)
			first := "-"
			if len(x.obs) > 0 {
				first = strings.Fields(x.obs[0])[0]
			}
			_, cur, _ := walViews(x.dev)
			ntg := 0
			for _, m := range mc.DecodeWAL(cur) {
				if m.Kind == "TG" {
					ntg++
				}
			}
			x.data["outcome"] = fmt.Sprintf("viol=%d,first=%s,tgs=%d", len(vs), first, ntg)
			return vs
		},
	}
}

var c07Scens = []*scenario{c07Scenario(2), c07Scenario(3)}

func init() {
	mc.Def(mc.Check{
		ID:    "C07",
		Level: "model_checking",
		Rule: "threads: the real SyncWAL loop + 2 writers (second scenario: 3) each issuing one write request to the same bucket + the 500 ms WAL timer (<=1 fire); scheduling points at every channel/lock/device operation and access to package-level variables; " +
			"ALL interleavings with at most 2 deviations for two writers (thorough: 3) and 1 deviation for three writers (thorough: 2) from the default schedule, explored depth-first on the real code; in the very step in which a request returns, the durable view of the WAL (contents as of its last fsync) and an all-time query are inspected. " +
			"non-trivial = schedules with >=1 deviation; states = distinct (final device image, observations)",
		Assume:   []string{"cooperative scheduler: memory-model effects are not modelled", "choice points only at operations on objects accessed by >=2 threads with a writer (conflict set iterated to a fixpoint per subtree) and at all channel/lock operations", "UTC"},
		QuickMax: 8 * time.Minute, ThorMax: 40 * time.Minute,
	}, schedEnum(c07Scens, func(c *mc.Ctx, si int) int {
		switch {
		case c.Thorough() && si == 0:
			return 3
		case !c.Thorough() && si == 1:
			return 1 // three writers: one deviation in the quick tier
		}
		return 2
	}), schedRun(c07Scens, "C07"))
}
