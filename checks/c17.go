package checks

import (
	"fmt"
	"sort"
	"strings"
	"time"

	"github.com/alpacahq/marketstore/v4/catalog"
	"github.com/alpacahq/marketstore/v4/utils/io"
	"github.com/alpacahq/marketstore/v4/verif/mc"
	"github.com/alpacahq/marketstore/v4/verif/rt/vos"
	"github.com/alpacahq/marketstore/v4/verif/rt/vrt"
	"github.com/alpacahq/marketstore/v4/verif/world"
)

// C17 Catalog stays consistent with disk — sequential part: explicit-state BFS over operation
// sequences on the real catalog/write path (successor = replay of the sequence on a fresh world + one op).

type c17Spec struct {
	Seq []int `json:"seq"` // operation indices
}

var c17Keys = []string{"A/1Min/X", "A/1Min/Y", "A/1H/X", "B/1Min/X"}

type c17Op struct {
	kind string // create1 create2 write1 write2 destroy query
	key  string
}

var c17Ops = func() []c17Op {
	var l []c17Op
	for _, k := range c17Keys {
		for _, kind := range []string{"create1", "create2", "write1", "write2", "destroy", "query"} {
			l = append(l, c17Op{kind, k})
		}
	}
	return l
}()

// second key family: bucket paths that are string prefixes of one another (symbol A vs AB, attribute group X vs XY);
// operation indices >= 100 address this family, a sequence stays within one family.
var c17KeysP = []string{"A/1Min/X", "A/1Min/XY", "AB/1Min/X"}

var c17OpsP = func() []c17Op {
	var l []c17Op
	for _, k := range c17KeysP {
		for _, kind := range []string{"create1", "write1", "write2", "destroy", "query"} {
			l = append(l, c17Op{kind, k})
		}
	}
	return l
}()

func c17OpAt(oi int) c17Op {
	if oi >= 100 {
		return c17OpsP[oi-100]
	}
	return c17Ops[oi]
}

func (o c17Op) String() string { return o.kind + "(" + o.key + ")" }

var c17Schemas = map[string][2][]string{
	"create1": {{"V"}, {"i4"}},
	"create2": {{"V", "W"}, {"f8", "i4"}},
}

type c17Result struct {
	canon string
	sig   string
	what  string
}

var c17Cache = map[string]*c17Result{}

func init() {
	mc.Def(mc.Check{
		ID:    "C17",
		Level: "model_checking",
		Rule: "explicit-state breadth-first search: keys {A/1Min/X, A/1Min/Y, A/1H/X, B/1Min/X} x operations {create with schema 1|2, write a row of year 2021|2022, destroy, query}, and a second search, from the state where they all exist and one level shallower, over keys whose paths are string prefixes of one another {A/1Min/X, A/1Min/XY, AB/1Min/X}; " +
			"state = canonical (year files and header schema per bucket on the device, catalog listing); successors by replaying the operation sequence on a fresh server plus one operation; depth <=3 (thorough <=5) with de-duplication by canonical state; " +
			"in every state: catalog listing = device scan = listing of a freshly loaded catalog on the same root, and every existing bucket can be looked up by key and queried. " +
			"concurrent part: three thread sets of catalog operations (create || write-new-year; + destroy; destroy || query || create) on the real catalog, ALL interleavings with <=2 deviations (thorough 3), same invariant on the end state. non-trivial = sequences of >=2 operations / schedules with >=1 deviation",
		Assume:   []string{"UTC", "BackgroundSync=false", "states merged by canonical form have the same futures: the canonical form holds everything the operations read (files, headers, catalog tree)"},
		QuickMax: 6 * time.Minute, ThorMax: 30 * time.Minute,
		Race: &mc.RaceSpec{Scenarios: []string{"create-write-query", "create-write-destroy"}, Quick: 6, Thorough: 60},
	}, func(c *mc.Ctx, yield func(schedSpec)) {
		c17Enum(c, func(s c17Spec) { yield(schedSpec{Scen: -1, Prefix: s.Seq, Single: true}) })
		schedEnum(c17Scens, func(c *mc.Ctx, si int) int {
			if c.Thorough() {
				return 3
			}
			return 2
		})(c, yield)
	}, func(c *mc.Ctx, s schedSpec) {
		if s.Scen < 0 {
			c17Run(c, c17Spec{Seq: s.Prefix})
			return
		}
		schedRun(c17Scens, "C17")(c, s)
	})
}

// ---- concurrent part: catalog operations interleaved under the controlled scheduler ----

func c17ConcScenario(name string, ops []c17Op) *scenario {
	return &scenario{
		name: name,
		body: func(x *execCtx) {
			vrt.Branching(false)
			w, obs := world.Start(world.Config{BackgroundSync: false})
			if !obs.OK() {
				x.failed = "startup: " + obs.String()
				return
			}
			// initial state: A/1Min/X (year 2021) and A/1H/X exist
			c17Apply(w, c17Op{"write1", "A/1Min/X"})
			c17Apply(w, c17Op{"write1", "A/1H/X"})
			vrt.Branching(true)
			var ths []*vrt.Thread
			for i, op := range ops {
				op := op
				ths = append(ths, vrt.Spawn(fmt.Sprintf("T%d:%s", i+1, op.kind), func() { c17Apply(w, op) }))
			}
			vrt.Join(ths...)
			vrt.Branching(false)
			sig, what := c17Invariant(w, c17Op{"concurrent", ""})
			x.data["sig"], x.data["what"] = sig, what
			x.data["canon"] = c17Canon(w)
			x.note("end state %s", x.data["canon"])
		},
		judge: func(x *execCtx, sch *vrt.Sched) []mc.Violation {
			sig, _ := x.data["sig"].(string)
			x.data["outcome"] = fmt.Sprint(sig, "|", mc.Hash(x.data["canon"])%1000)
			if sig != "" {
				return []mc.Violation{{Sig: strings.TrimSuffix(sig, "|concurrent") + "|concurrent:" + name, What: fmt.Sprint(x.data["what"])}}
			}
			return nil
		},
	}
}

var c17Scens = []*scenario{
	c17ConcScenario("create A/1Min/Y || write A/1Min/X into a new year", []c17Op{{"create1", "A/1Min/Y"}, {"write2", "A/1Min/X"}}),
	c17ConcScenario("create A/1Min/Y || write new year || destroy A/1H/X", []c17Op{{"create1", "A/1Min/Y"}, {"write2", "A/1Min/X"}, {"destroy", "A/1H/X"}}),
	c17ConcScenario("destroy A/1H/X || query A/1H/X || create B/1Min/X", []c17Op{{"destroy", "A/1H/X"}, {"query", "A/1H/X"}, {"create2", "B/1Min/X"}}),
}

func c17Enum(c *mc.Ctx, yield func(c17Spec)) {
	depth := 3
	if c.Thorough() {
		depth = 5
	}
	var main, pref []int
	for oi := range c17Ops {
		main = append(main, oi)
	}
	for oi := range c17OpsP {
		pref = append(pref, 100+oi)
	}
	c17BFS(c, yield, main, depth)
	// the prefix family starts from the state in which its three buckets exist (year 2021), one level shallower
	c17BFS(c, yield, pref, depth-1)
}

func c17BFS(c *mc.Ctx, yield func(c17Spec), ops []int, depth int) {
	seen := map[string]bool{}
	r0 := c17ExecF(nil, len(ops) > 0 && ops[0] >= 100)
	seen[r0.canon] = true
	c.State(r0.canon)
	frontier := [][]int{nil}
	for d := 0; d < depth && len(frontier) > 0; d++ {
		var next [][]int
		for _, seq := range frontier {
			for _, oi := range ops {
				if c.Expired() {
					return
				}
				ns := append(append([]int{}, seq...), oi)
				r := c17Exec(ns)
				c17Cache[fmt.Sprint(ns)] = r
				c.Transitions++
				yield(c17Spec{ns})
				delete(c17Cache, fmt.Sprint(ns))
				if r.sig != "" {
					continue // do not explore beyond a violating state
				}
				if !seen[r.canon] {
					seen[r.canon] = true
					c.State(r.canon)
					next = append(next, ns)
				}
			}
		}
		frontier = next
	}
}

func c17Run(c *mc.Ctx, s c17Spec) {
	r := c17Cache[fmt.Sprint(s.Seq)]
	if r == nil {
		r = c17Exec(s.Seq)
	}
	c.Eval(fmt.Sprint(s.Seq), len(s.Seq) >= 2)
	c.Traces++
	c.Outcome(fmt.Sprintf("buckets=%d", strings.Count(r.canon, "|bucket ")))
	if r.sig != "" {
		c.Violate(r.sig, r.what)
	}
	if len(s.Seq) == 3 {
		var names []string
		for _, o := range s.Seq {
			names = append(names, c17OpAt(o).String())
		}
		c.Sample(map[string]any{"sequence": names, "state": r.canon})
	}
}

// c17Exec replays a sequence on a fresh world and returns the canonical state of the end state
// plus the first invariant violation met after any step.
func c17Exec(seq []int) *c17Result { return c17ExecF(seq, len(seq) > 0 && seq[0] >= 100) }

func c17ExecF(seq []int, prefixFamily bool) *c17Result {
	world.FreshDevice()
	w, obs := world.Start(world.Config{BackgroundSync: false})
	if !obs.OK() {
		return &c17Result{sig: "startup-failed", what: obs.String()}
	}
	defer w.Close()
	res := &c17Result{}
	var names []string
	if prefixFamily {
		for _, k := range c17KeysP {
			c17Apply(w, c17Op{"write1", k})
		}
		names = append(names, "[A/1Min/X, A/1Min/XY, AB/1Min/X exist]")
	}
	for _, oi := range seq {
		op := c17OpAt(oi)
		names = append(names, op.String())
		pan := safely(func() { c17Apply(w, op) })
		if pan != "" {
			res.sig, res.what = "panic|"+op.kind, fmt.Sprintf("after %v: %s", names, pan)
			return res
		}
		if sig, what := c17Invariant(w, op); sig != "" {
			res.sig, res.what = sig, fmt.Sprintf("after %v: %s", names, what)
			return res
		}
	}
	res.canon = c17Canon(w)
	return res
}

func c17Apply(w *world.World, op c17Op) {
	switch op.kind {
	case "create1", "create2":
		sc := c17Schemas[op.kind]
		_ = w.Create(op.key, sc[0], sc[1], false)
	case "write1", "write2":
		year := 2021
		if op.kind == "write2" {
			year = 2022
		}
		t := time.Date(year, 3, 1, 10, 0, 0, 0, time.UTC)
		names, cols := []string{"V"}, []any{[]int32{int32(year)}}
		if gi, err := w.GetInfo(op.key); err == nil && len(gi.DSV) == 3 {
			names, cols = []string{"V", "W"}, []any{[]float64{float64(year)}, []int32{int32(year)}}
		}
		_ = w.WriteCS(op.key, csFixed([]time.Time{t}, names, cols), false)
	case "destroy":
		_ = w.Destroy(op.key)
	case "query":
		_, _ = w.QueryAll(op.key)
	}
}

// c17Disk scans the device: bucket key -> sorted "year:schema" entries.
func c17Disk() map[string][]string {
	m := map[string][]string{}
	fs := vos.Cur().FS()
	fs.Walk(world.Root, func(p string, dir bool, size int64, read func() []byte) {
		if dir || !strings.HasSuffix(p, ".bin") {
			return
		}
		rel := strings.TrimPrefix(p, world.Root+"/")
		parts := strings.Split(rel, "/")
		if len(parts) != 4 {
			return
		}
		key := strings.Join(parts[:3], "/")
		m[key] = append(m[key], strings.TrimSuffix(parts[3], ".bin"))
	})
	for k := range m {
		sort.Strings(m[k])
	}
	return m
}

func c17CatalogListing(d *catalog.Directory) (map[string][]string, error) {
	m := map[string][]string{}
	for _, k := range catalog.ListTimeBucketKeyNames(d) {
		m[k] = nil
	}
	infos, err := d.GatherTimeBucketInfo()
	if err != nil {
		return nil, err
	}
	for _, ti := range infos {
		rel := strings.TrimPrefix(ti.Path, world.Root+"/")
		parts := strings.Split(rel, "/")
		if len(parts) != 4 {
			continue
		}
		key := strings.Join(parts[:3], "/")
		m[key] = append(m[key], fmt.Sprint(ti.Year))
	}
	for k := range m {
		sort.Strings(m[k])
	}
	return m, nil
}

func listingStr(m map[string][]string) string {
	var ks []string
	for k := range m {
		ks = append(ks, k)
	}
	sort.Strings(ks)
	var sb strings.Builder
	for _, k := range ks {
		fmt.Fprintf(&sb, "%s%v ", k, m[k])
	}
	return sb.String()
}

func c17Invariant(w *world.World, op c17Op) (string, string) {
	disk := c17Disk()
	cat, err := c17CatalogListing(w.Cat)
	if err != nil {
		return "catalog-error|" + op.kind, err.Error()
	}
	// buckets whose directory exists but holds no year file are not buckets on disk; the catalog may list them only if ...
	ds, cs := listingStr(disk), listingStr(cat)
	if ds != cs {
		sym := "catalog-differs"
		for k := range disk {
			if _, ok := cat[k]; !ok {
				sym = "catalog-missing-bucket"
			}
		}
		for k := range cat {
			if _, ok := disk[k]; !ok {
				sym = "catalog-extra-bucket"
			}
		}
		if sym == "catalog-differs" {
			sym = "catalog-years-differ"
		}
		return sym + "|" + op.kind, fmt.Sprintf("device holds %s but the catalog lists %s", ds, cs)
	}
	fresh, ferr := catalog.NewDirectory(world.Root)
	if ferr != nil {
		if len(disk) > 0 {
			return "reload-error|" + op.kind, ferr.Error()
		}
	} else {
		fl, err := c17CatalogListing(fresh)
		if err != nil {
			return "reload-error|" + op.kind, err.Error()
		}
		if fs := listingStr(fl); fs != ds {
			return "reload-differs|" + op.kind, fmt.Sprintf("device holds %s but a freshly loaded catalog lists %s", ds, fs)
		}
	}
	var dks []string
	for k := range disk {
		dks = append(dks, k)
	}
	sort.Strings(dks) // fixed order: map iteration order would make device reads differ between runs
	for _, k := range dks {
		// the server's lookup of a bucket by key (what write, info and create use to decide whether it exists)
		if _, err := w.GetInfo(k); err != nil {
			return "lookup-fails|" + op.kind, fmt.Sprintf("bucket %s is on disk and listed, but the catalog's lookup by key fails: %v", k, err)
		}
		if _, err := w.QueryAll(k); err != nil {
			return "query-fails|" + op.kind, fmt.Sprintf("bucket %s exists but the query fails: %v", k, err)
		}
	}
	return "", ""
}

func c17Canon(w *world.World) string {
	disk := c17Disk()
	var sb strings.Builder
	var ks []string
	for k := range disk {
		ks = append(ks, k)
	}
	sort.Strings(ks)
	for _, k := range ks {
		schema := "?"
		if gi, err := w.GetInfo(k); err == nil {
			var l []string
			for _, d := range gi.DSV {
				ts, _ := io.ToTypeStr(d.Type)
				l = append(l, d.Name+":"+ts)
			}
			schema = strings.Join(l, ",")
		}
		fmt.Fprintf(&sb, "|bucket %s years %v schema %s", k, disk[k], schema)
	}
	// directories without data files (left-overs) are part of the state too
	var dirs []string
	vos.Cur().FS().Walk(world.Root, func(p string, dir bool, size int64, read func() []byte) {
		if dir {
			dirs = append(dirs, strings.TrimPrefix(p, world.Root))
		}
	})
	sb.WriteString(" dirs " + strings.Join(dirs, ","))
	return sb.String()
}
