package checks

import (
	"fmt"
	"strings"
	"time"

	"github.com/alpacahq/marketstore/v4/verif/mc"
	"github.com/alpacahq/marketstore/v4/verif/world"
)

// C20 SQL projection, alias, LIMIT and INSERT INTO behave relationally.

type c20Spec struct {
	Kind   string   `json:"kind"` // select | limit | insert
	Cols   []string `json:"cols,omitempty"`
	Alias  int      `json:"alias,omitempty"` // bit mask: column i is aliased
	Limit  int      `json:"limit,omitempty"`
	Where  int      `json:"where"` // -1 none, else index of an Epoch atom
	Target string   `json:"target,omitempty"`
}

// c20EpochAtoms: the Epoch atoms of C19 (bound as datetime string) followed by the value-column atoms whose bound
// lies on or between stored values (indices of the Epoch atoms are stable: committed replay files use them).
func c20EpochAtoms(f *sqlFixture) []sqlAtom {
	var l, v []sqlAtom
	for _, a := range sqlAtoms(f) {
		if a.col == "Epoch" && a.enc == "str" {
			l = append(l, a)
		}
		if a.col != "Epoch" && (a.pos == "on-middle" || a.pos == "between-two" || a.op == "between") {
			v = append(v, a)
		}
	}
	c20NumEpochAtoms = len(l)
	return append(l, v...)
}

var c20NumEpochAtoms int

func init() {
	mc.Def(mc.Check{
		ID:    "C20",
		Level: "exploration",
		Rule: "source = a fixed 1Min bucket with 6 bars (Open f4, Volume i4). select: every ordered list of 1-3 distinct columns of {Epoch, Open, Volume} x every subset of them aliased, with and without a WHERE, and every list under every value-column filter (bound on/between stored values); limit: SELECT * with LIMIT 0..rows+1 with and without WHERE, LIMIT 1|2 (thorough 1..7) under every Epoch and value filter (thorough: every select list and alias subset under every filter); " +
			"insert: INSERT INTO t SELECT * ... WHERE <each Epoch atom of C19 as datetime string> into a target of the same timeframe and into a 5Min target of the same schema, then t is queried. " +
			"oracle: named columns renamed by alias with the filtered rows' values (an empty result is only required to be empty); first n rows; t holds the selected rows truncated to t's timeframe (last row wins per target interval). non-trivial = statements with a WHERE or an alias or a limit below the row count",
		Assume:   []string{"UTC", "INSERT goes through the process-global instance (executor.ThisInstance) as in the server"},
		QuickMax: 6 * time.Minute, ThorMax: 20 * time.Minute,
	}, c20Enum, c20Run)
}

func c20Enum(c *mc.Ctx, yield func(c20Spec)) {
	f := &sqlFixtures[0]
	cols := []string{"Epoch", "Open", "Volume"}
	var lists [][]string
	var rec func(cur []string)
	rec = func(cur []string) {
		if len(cur) > 0 {
			lists = append(lists, append([]string{}, cur...))
		}
		if len(cur) == 3 {
			return
		}
		for _, cn := range cols {
			if !contains(cur, cn) {
				rec(append(cur, cn))
			}
		}
	}
	rec(nil)
	ea := c20EpochAtoms(f)
	for _, l := range lists {
		for mask := 0; mask < 1<<len(l); mask++ {
			yield(c20Spec{Kind: "select", Cols: l, Alias: mask, Where: -1})
			yield(c20Spec{Kind: "select", Cols: l, Alias: mask, Where: 7 % len(ea)})
		}
	}
	for n := 0; n <= len(f.rows)+1; n++ {
		yield(c20Spec{Kind: "limit", Limit: n, Where: -1})
		yield(c20Spec{Kind: "limit", Limit: n, Where: 3 % len(ea)})
	}
	// LIMIT over every filter (a limit pushed below the filter returns too few rows), and select lists under
	// filters on value columns (a projection applied before the filter drops the filtered column)
	for wi := range ea {
		limits := []int{1, 2}
		if c.Thorough() {
			limits = []int{1, 2, 3, 4, 5, 6, 7}
		}
		for _, n := range limits {
			yield(c20Spec{Kind: "limit", Limit: n, Where: wi})
		}
		if wi >= c20NumEpochAtoms || c.Thorough() {
			for _, l := range lists {
				yield(c20Spec{Kind: "select", Cols: l, Where: wi})
				if c.Thorough() {
					for mask := 1; mask < 1<<len(l); mask++ {
						yield(c20Spec{Kind: "select", Cols: l, Alias: mask, Where: wi})
					}
				}
			}
		}
	}
	for wi := range ea[:c20NumEpochAtoms] {
		for _, t := range []string{"T/1Min/O", "T/5Min/O"} {
			yield(c20Spec{Kind: "insert", Where: wi, Target: t})
		}
	}
	for _, t := range []string{"T/1Min/O", "T/5Min/O"} {
		yield(c20Spec{Kind: "insert", Where: -1, Target: t})
	}
}

func c20Run(c *mc.Ctx, s c20Spec) {
	f := &sqlFixtures[0]
	w, err := f.build()
	if err != nil {
		c.Violate("fixture-build", err.Error())
		return
	}
	defer w.Close()
	ea := c20EpochAtoms(f)
	where := ""
	var atoms []sqlAtom
	if s.Where >= 0 {
		where = " WHERE " + ea[s.Where].text
		atoms = []sqlAtom{ea[s.Where]}
	}
	var rows []sqlRow
	for _, r := range f.rows {
		ok := true
		for _, a := range atoms {
			if !a.eval(r) {
				ok = false
			}
		}
		if ok {
			rows = append(rows, r)
		}
	}
	val := func(r sqlRow, col string) string {
		switch col {
		case "Epoch":
			return fmt.Sprint(r.t.Unix())
		case "Open":
			return fmt.Sprint(r.open)
		}
		return fmt.Sprint(r.vol)
	}
	switch s.Kind {
	case "select":
		var items, names []string
		for i, cn := range s.Cols {
			if s.Alias&(1<<i) != 0 {
				items = append(items, fmt.Sprintf("%s AS a%d", cn, i))
				names = append(names, fmt.Sprintf("a%d", i))
			} else {
				items = append(items, cn)
				names = append(names, cn)
			}
		}
		stmt := "SELECT " + strings.Join(items, ", ") + " FROM `" + f.key + "`" + where + ";"
		tab, err := runSQL(w, stmt)
		c.Eval(fmt.Sprint(s), s.Alias != 0 || s.Where >= 0)
		shape := fmt.Sprintf("cols%d", len(s.Cols))
		if s.Alias != 0 {
			shape += "+alias"
		}
		if err != nil {
			if len(rows) == 0 {
				c.Outcome("error-on-empty")
				return
			}
			c.Violate("error|select|"+shape, fmt.Sprintf("%s failed: %v", stmt, err))
			return
		}
		c.Outcome("select-ok")
		if len(rows) == 0 && tab.Len() == 0 {
			// nothing selected, nothing returned: the server hands back its empty series without applying the select
			// list; with no row there is no column value to name, so the property has nothing to say here
			c.Outcome("select-empty")
			return
		}
		for i, nm := range names {
			k := tab.Col(nm)
			if k < 0 {
				c.Violate("column-missing|select|"+shape, fmt.Sprintf("%s: column %q not in the result %v", stmt, nm, tab.Cols))
				return
			}
			if tab.Len() != len(rows) {
				c.Violate("row-count|select|"+shape, fmt.Sprintf("%s returned %d rows, %d expected", stmt, tab.Len(), len(rows)))
				return
			}
			for r := range rows {
				if fmt.Sprint(tab.Rows[r][k]) != val(rows[r], s.Cols[i]) {
					c.Violate("wrong-value|select|"+shape, fmt.Sprintf("%s: row %d column %s = %v, expected %s", stmt, r, nm, tab.Rows[r][k], val(rows[r], s.Cols[i])))
					return
				}
			}
		}
		for _, got := range tab.Cols {
			if !contains(names, got) {
				c.Violate("column-extra|select|"+shape, fmt.Sprintf("%s: result has column %q that was not selected (result columns %v)", stmt, got, tab.Cols))
				return
			}
		}
		if len(s.Cols) == 3 && s.Alias == 5 {
			c.Sample(map[string]any{"statement": stmt, "rows": tab.Len(), "columns": tab.Cols})
		}
	case "limit":
		stmt := fmt.Sprintf("SELECT * FROM `%s`%s LIMIT %d;", f.key, where, s.Limit)
		tab, err := runSQL(w, stmt)
		want := rows
		if s.Limit > 0 && s.Limit < len(rows) {
			want = rows[:s.Limit]
		}
		c.Eval(fmt.Sprint(s), s.Limit > 0 && s.Limit < len(rows))
		lc := "limit<rows"
		switch {
		case s.Limit == 0:
			lc = "limit0"
		case s.Limit >= len(rows):
			lc = "limit>=rows"
		}
		if err != nil {
			if len(want) == 0 {
				c.Outcome("error-on-empty")
				return
			}
			c.Violate("error|limit|"+lc, fmt.Sprintf("%s failed: %v", stmt, err))
			return
		}
		c.Outcome("limit-ok")
		var wantIDs []string
		for _, r := range want {
			wantIDs = append(wantIDs, fmt.Sprintf("%d.%09d#%d", r.t.Unix(), 0, r.vol))
		}
		if got := sqlRowIDs(tab); fmt.Sprint(got) != fmt.Sprint(wantIDs) && !(s.Limit == 0 && len(got) == len(rows)) {
			c.Violate("wrong-rows|limit|"+lc, fmt.Sprintf("%s returned %v, expected the first %d of the filtered rows: %v", stmt, got, s.Limit, wantIDs))
		}
	case "insert":
		if err := w.Create(s.Target, []string{"Open", "Volume"}, []string{"f4", "i4"}, false); err != nil {
			c.Violate("create-target", err.Error())
			return
		}
		stmt := "INSERT INTO `" + s.Target + "` SELECT * FROM `" + f.key + "`" + where + ";"
		_, err := runSQL(w, stmt)
		c.Eval(fmt.Sprint(s), s.Where >= 0)
		tcls := "same-timeframe"
		ttf := time.Minute
		if strings.Contains(s.Target, "5Min") {
			tcls, ttf = "coarser-timeframe", 5*time.Minute
		}
		if err != nil {
			if len(rows) == 0 {
				c.Outcome("error-on-empty")
				return
			}
			c.Violate("error|insert|"+tcls, fmt.Sprintf("%s failed: %v", stmt, err))
			return
		}
		c.Outcome("insert-ok/" + tcls)
		// expected target content: rows truncated to the target timeframe, last row wins
		type tr struct {
			e int64
			r sqlRow
		}
		var exp []tr
		for _, r := range rows {
			e := intervalStart(r.t, ttf, time.UTC).Unix()
			if n := len(exp); n > 0 && exp[n-1].e == e {
				exp[n-1].r = r
			} else {
				exp = append(exp, tr{e, r})
			}
		}
		tab, qerr := w.QueryAll(s.Target)
		if qerr != nil && len(exp) > 0 {
			c.Violate("target-query-error|"+tcls, fmt.Sprintf("after %s the target cannot be queried: %v", stmt, qerr))
			return
		}
		var got, want []string
		if qerr == nil {
			ei, oi, vi := tab.Col("Epoch"), tab.Col("Open"), tab.Col("Volume")
			for _, r := range tab.Rows {
				got = append(got, fmt.Sprintf("%v:%v/%v", r[ei], r[oi], r[vi]))
			}
		}
		for _, x := range exp {
			want = append(want, fmt.Sprintf("%d:%v/%v", x.e, x.r.open, x.r.vol))
		}
		if fmt.Sprint(got) != fmt.Sprint(want) {
			sym := "target-differs"
			if len(got) < len(want) {
				sym = "target-missing-rows"
			} else if len(got) > len(want) {
				sym = "target-extra-rows"
			}
			c.Violate(sym+"|"+tcls, fmt.Sprintf("after %s the target holds %v, expected %v", stmt, got, want))
		}
		if s.Where == 4 {
			c.Sample(map[string]any{"statement": stmt, "target_rows": got})
		}
	}
}

var _ = world.Root
