package checks

import (
	"fmt"
	"strings"
	"time"

	"github.com/alpacahq/marketstore/v4/sqlparser"
	"github.com/alpacahq/marketstore/v4/utils/io"
	"github.com/alpacahq/marketstore/v4/verif/mc"
	"github.com/alpacahq/marketstore/v4/verif/world"
)

// C19 SQL WHERE predicates select exactly the matching rows.

type sqlRow struct {
	t    time.Time
	open float32
	vol  int32
}

type sqlFixture struct {
	name     string
	key      string
	variable bool
	rows     []sqlRow
}

var sqlFixtures = func() []sqlFixture {
	b := time.Date(2021, 3, 1, 10, 0, 0, 0, time.UTC)
	f := sqlFixture{name: "fixed-1Min", key: "S/1Min/O"}
	for i := 0; i < 6; i++ {
		f.rows = append(f.rows, sqlRow{b.Add(time.Duration(i) * time.Minute), float32(i) + 1.1, int32(10 * (i + 1))})
	}
	v := sqlFixture{name: "variable-1H", key: "S/1H/T", variable: true}
	for i, d := range []time.Duration{500 * time.Millisecond, 20*time.Minute + 250*time.Millisecond, time.Hour, time.Hour + 30*time.Minute + 1750*time.Millisecond, 3 * time.Hour, 3*time.Hour + 1} {
		v.rows = append(v.rows, sqlRow{b.Add(d), float32(i) + 1.1, int32(10 * (i + 1))})
	}
	return []sqlFixture{f, v}
}()

func (f *sqlFixture) build() (*world.World, error) {
	world.FreshDevice()
	w, obs := world.Start(world.Config{BackgroundSync: false})
	if !obs.OK() {
		return nil, fmt.Errorf("%s", obs)
	}
	var ts []time.Time
	var o []float32
	var v []int32
	for _, r := range f.rows {
		ts, o, v = append(ts, r.t), append(o, r.open), append(v, r.vol)
	}
	var err error
	if f.variable {
		err = w.WriteCS(f.key, csVar(ts, []string{"Open", "Volume"}, []any{o, v}), true)
	} else {
		err = w.WriteCS(f.key, csFixed(ts, []string{"Open", "Volume"}, []any{o, v}), false)
	}
	if err != nil {
		w.Close()
		return nil, err
	}
	if f.variable {
		// sub-interval timestamps are stored with the bucket's resolution: the reference filters the STORED rows
		tab, err := w.QueryAll(f.key)
		if err != nil || tab.Len() != len(f.rows) {
			w.Close()
			return nil, fmt.Errorf("fixture read-back: %v rows=%d", err, tab.Len())
		}
		ei, ni := tab.Col("Epoch"), tab.Col("Nanoseconds")
		for i, r := range tab.Rows {
			f.rows[i].t = time.Unix(r[ei].(int64), int64(r[ni].(int32))).UTC()
		}
	}
	return w, nil
}

// an atom of a WHERE conjunction
type sqlAtom struct {
	col  string // Epoch | Open | Volume
	op   string // < <= > >= = between
	enc  string // Epoch bound encoding: str | sec | nano ; "" for value columns
	pos  string // bound position class
	text string // SQL text
	eval func(r sqlRow) bool
}

func cmpOp(op string, c int) bool {
	switch op {
	case "<":
		return c < 0
	case "<=":
		return c <= 0
	case ">":
		return c > 0
	case ">=":
		return c >= 0
	}
	return c == 0
}

func sqlAtoms(f *sqlFixture) []sqlAtom {
	var atoms []sqlAtom
	ops := []string{"<", "<=", ">", ">=", "="}
	n := len(f.rows)
	// Epoch bounds
	type eb struct {
		t   time.Time
		pos string
	}
	ebs := []eb{{f.rows[0].t.Add(-time.Hour), "below-all"}, {f.rows[0].t, "on-first"}, {f.rows[n/2].t, "on-middle"},
		{f.rows[n/2].t.Add(f.rows[n/2+1].t.Sub(f.rows[n/2].t) / 2), "between-two"}, {f.rows[n-1].t, "on-last"}, {f.rows[n-1].t.Add(time.Hour), "above-all"}}
	encs := []string{"str", "sec", "nano"}
	lit := func(t time.Time, enc string) (string, time.Time) {
		switch enc {
		case "str":
			if t.Nanosecond() != 0 {
				tt := t.Truncate(10 * time.Nanosecond)
				return "'" + tt.Format("2006-01-02-15:04:05.00000000") + "'", tt
			}
			return "'" + t.Format("2006-01-02-15:04:05") + "'", t
		case "sec":
			tt := t.Truncate(time.Second)
			return fmt.Sprint(tt.Unix()), tt
		}
		return fmt.Sprint(t.UnixNano()), t
	}
	tcmp := func(a, b time.Time) int {
		switch {
		case a.Before(b):
			return -1
		case a.After(b):
			return 1
		}
		return 0
	}
	for _, b := range ebs {
		for _, enc := range encs {
			s, bt := lit(b.t, enc)
			pos := b.pos
			if !bt.Equal(b.t) {
				pos += "(truncated-to-second)"
			}
			for _, op := range ops {
				op, bt := op, bt
				atoms = append(atoms, sqlAtom{"Epoch", op, enc, pos, "Epoch " + op + " " + s, func(r sqlRow) bool { return cmpOp(op, tcmp(r.t, bt)) }})
			}
		}
	}
	for i := 0; i < len(ebs); i++ {
		for j := i + 1; j < len(ebs); j += 2 {
			for _, enc := range encs {
				s1, t1 := lit(ebs[i].t, enc)
				s2, t2 := lit(ebs[j].t, enc)
				atoms = append(atoms, sqlAtom{"Epoch", "between", enc, ebs[i].pos + ".." + ebs[j].pos, "Epoch BETWEEN " + s1 + " AND " + s2,
					func(r sqlRow) bool { return r.t.After(t1) && r.t.Before(t2) }})
			}
		}
	}
	// value columns
	ob := []struct {
		v   float32
		pos string
	}{{0.5, "below-all"}, {1.1, "on-first"}, {3.1, "on-middle"}, {3.6, "between-two"}, {6.1, "on-last"}, {9.5, "above-all"}} // stored values are x.1: not representable in binary, so float32(bound) != bound as float64
	for _, b := range ob {
		for _, op := range ops {
			op, bv := op, b.v
			atoms = append(atoms, sqlAtom{"Open", op, "", b.pos, fmt.Sprintf("Open %s %g", op, bv), func(r sqlRow) bool {
				c := 0
				if r.open < bv {
					c = -1
				} else if r.open > bv {
					c = 1
				}
				return cmpOp(op, c)
			}})
		}
	}
	vb := []struct {
		v   int32
		pos string
	}{{5, "below-all"}, {10, "on-first"}, {30, "on-middle"}, {35, "between-two"}, {60, "on-last"}, {99, "above-all"}}
	for _, b := range vb {
		for _, op := range ops {
			op, bv := op, b.v
			atoms = append(atoms, sqlAtom{"Volume", op, "", b.pos, fmt.Sprintf("Volume %s %d", op, bv), func(r sqlRow) bool {
				c := 0
				if r.vol < bv {
					c = -1
				} else if r.vol > bv {
					c = 1
				}
				return cmpOp(op, c)
			}})
		}
	}
	for i := 0; i < len(ob); i += 1 {
		for j := i + 1; j < len(ob); j += 2 {
			a, b := ob[i].v, ob[j].v
			atoms = append(atoms, sqlAtom{"Open", "between", "", ob[i].pos + ".." + ob[j].pos, fmt.Sprintf("Open BETWEEN %g AND %g", a, b), func(r sqlRow) bool { return r.open > a && r.open < b }})
			c, d := vb[i].v, vb[j].v
			atoms = append(atoms, sqlAtom{"Volume", "between", "", vb[i].pos + ".." + vb[j].pos, fmt.Sprintf("Volume BETWEEN %d AND %d", c, d), func(r sqlRow) bool { return r.vol > c && r.vol < d }})
		}
	}
	return atoms
}

var c19Single = map[int][]bool{}

type c19Spec struct {
	Fix  int `json:"fixture"`
	Atom int `json:"atom"` // first atom; every second atom is tried inside the case
}

func init() {
	mc.Def(mc.Check{
		ID:    "C19",
		Level: "exploration",
		Rule: "fixtures: a fixed 1Min bucket with 6 bars and a variable 1H bucket with 6 records at sub-second instants (columns Open f4, Volume i4); atoms = column in {Epoch, Open, Volume} x op in {<,<=,>,>=,=} x bound in {below all, on the first/middle/last stored value, between two, above all}, Epoch bounds as datetime string, epoch seconds and epoch nanoseconds, plus BETWEEN a AND b over bound pairs; " +
			"every single atom; every ordered conjunction of an atom with a representative second atom (quick: every operator on every column with the bound on/between stored values, ~40 second atoms; thorough: EVERY ordered pair of atoms) is run through BuildQueryTree -> NewExecutableStatement -> Materialize and compared with a reference filter (BETWEEN strict, value columns compared in the column's precision). a case = (fixture, first atom) with all second atoms; non-trivial = the expected result is neither empty nor everything",
		Assume:   []string{"UTC", "an error return is accepted where the expected result is empty", "a conjunction is reported only when each of its atoms is correct on its own (otherwise the atom is the finding)"},
		QuickMax: 6 * time.Minute, ThorMax: 30 * time.Minute,
	}, func(c *mc.Ctx, yield func(c19Spec)) {
		for fi := range sqlFixtures {
			for ai := range sqlAtoms(&sqlFixtures[fi]) {
				yield(c19Spec{fi, ai})
			}
		}
	}, c19Run)
}

// runSQL materializes a statement and returns the rows (Epoch, Nanoseconds, Volume as identity).
func runSQL(w *world.World, stmt string) (*world.Table, error) {
	var tab *world.Table
	var err error
	if p := safely(func() {
		qt, e := sqlparser.BuildQueryTree(stmt)
		if e != nil {
			err = e
			return
		}
		es, e := sqlparser.NewExecutableStatement(qt)
		if e != nil {
			err = e
			return
		}
		var cs *io.ColumnSeries
		cs, e = es.Materialize(w.Agg, w.Cat)
		if e != nil {
			err = e
			return
		}
		tab = world.FromCS(cs)
	}); p != "" {
		return nil, fmt.Errorf("PANIC %s", p)
	}
	return tab, err
}

func sqlRowIDs(tab *world.Table) []string {
	ei, ni, vi := tab.Col("Epoch"), tab.Col("Nanoseconds"), tab.Col("Volume")
	var l []string
	for _, r := range tab.Rows {
		ns := int32(0)
		if ni >= 0 {
			ns, _ = r[ni].(int32)
		}
		id := ""
		if ei >= 0 {
			id = fmt.Sprintf("%d.%09d", r[ei], ns)
		}
		if vi >= 0 {
			id += fmt.Sprintf("#%v", r[vi])
		}
		l = append(l, id)
	}
	return l
}

func c19Expect(f *sqlFixture, atoms ...sqlAtom) []string {
	var l []string
	for _, r := range f.rows {
		ok := true
		for _, a := range atoms {
			if !a.eval(r) {
				ok = false
			}
		}
		if ok {
			l = append(l, fmt.Sprintf("%d.%09d#%d", r.t.Unix(), r.t.Nanosecond(), r.vol))
		}
	}
	return l
}

// c19Try runs one WHERE clause; returns symptom ("" = correct) and a description.
func c19Try(w *world.World, f *sqlFixture, where string, want []string) (string, string) {
	stmt := "SELECT * FROM `" + f.key + "` WHERE " + where + ";"
	tab, err := runSQL(w, stmt)
	if err != nil {
		if strings.HasPrefix(err.Error(), "PANIC") {
			return "panic", stmt + ": " + err.Error()
		}
		if len(want) == 0 {
			return "", ""
		}
		return "error", fmt.Sprintf("%s failed: %v; expected rows %v", stmt, err, want)
	}
	got := sqlRowIDs(tab)
	if fmt.Sprint(got) == fmt.Sprint(want) {
		return "", ""
	}
	sym := "order"
	switch {
	case len(got) > len(want):
		sym = "extra-rows"
	case len(got) < len(want):
		sym = "missing-rows"
	}
	return sym, fmt.Sprintf("%s returned %v, the rows satisfying it are %v", stmt, got, want)
}

func c19Run(c *mc.Ctx, s c19Spec) {
	f := &sqlFixtures[s.Fix]
	w, err := f.build()
	if err != nil {
		c.Violate("fixture-build", err.Error())
		return
	}
	defer w.Close()
	atoms := sqlAtoms(f)
	a := atoms[s.Atom]
	want := c19Expect(f, a)
	c.Eval(fmt.Sprint(s), len(want) > 0 && len(want) < len(f.rows))
	sym, what := c19Try(w, f, a.text, want)
	c.Count("statements", 1)
	if sym != "" {
		c.Violate(fmt.Sprintf("%s|%s|%s|%s|%s|%s", sym, f.name, a.col, a.op, a.enc, a.pos), what)
		c.Outcome("atom-wrong")
		return // conjunctions with a wrong atom add nothing
	}
	c.Outcome(fmt.Sprintf("atom-ok/rows=%d", len(want)))
	// which atoms are correct on their own? (needed to attribute a failing conjunction; computed once per process)
	if c19Single[s.Fix] == nil {
		ok := make([]bool, len(atoms))
		for bi, b := range atoms {
			bs, _ := c19Try(w, f, b.text, c19Expect(f, b))
			ok[bi] = bs == ""
		}
		c19Single[s.Fix] = ok
	}
	for bi, b := range atoms {
		if !c19Single[s.Fix][bi] {
			continue
		}
		if !c.Thorough() && !c19QuickSecond(b) {
			continue // quick tier: second atoms from a representative subset (SQL parsing costs ~50 ms per statement)
		}
		want2 := c19Expect(f, a, b)
		sym, what := c19Try(w, f, a.text+" AND "+b.text, want2)
		c.Count("statements", 1)
		if sym != "" {
			shape := "different-columns"
			if a.col == b.col {
				shape = "same-column:" + a.col
				if a.enc != b.enc {
					shape += ":mixed-encodings"
				}
			}
			c.Violate(fmt.Sprintf("%s|%s|conjunction|%s|%s&%s", sym, f.name, shape, a.op, b.op), what)
		}
		_ = bi
	}
	if s.Atom%37 == 0 {
		c.Sample(map[string]any{"fixture": f.name, "first_atom": a.text, "second_atoms": len(atoms), "rows_expected_for_first": want})
	}
}

// c19QuickSecond: the representative second atoms of the quick tier: every operator on every column with
// the bound on the middle stored value (Epoch as datetime string and as epoch seconds) plus one BETWEEN per column.
func c19QuickSecond(b sqlAtom) bool {
	if b.op == "between" {
		return strings.HasPrefix(b.pos, "on-first..") && (b.enc == "" || b.enc == "str")
	}
	if !strings.HasPrefix(b.pos, "on-middle") && !strings.HasPrefix(b.pos, "between-two") {
		return false
	}
	return b.enc == "" || b.enc == "str" || (b.enc == "sec" && strings.HasPrefix(b.pos, "on-middle"))
}
