package checks

import (
	"context"
	"strings"
	"fmt"
	"math"
	"time"

	"github.com/alpacahq/marketstore/v4/executor"
	"github.com/alpacahq/marketstore/v4/replication"
	"github.com/alpacahq/marketstore/v4/verif/mc"
	"github.com/alpacahq/marketstore/v4/verif/rt/vrt"
	"github.com/alpacahq/marketstore/v4/verif/world"
)

// C25 Replicas converge to the master.

type c25Spec struct {
	Hist   []int `json:"hist"`   // write kinds
	Groups []int `json:"groups"` // sizes of consecutive groups; the writes of a group are queued before one flush (one transaction)
}

type c25Kind struct {
	key      string
	tf       time.Duration
	variable bool
}

var c25Kinds = []c25Kind{
	{"FA/1Min/B", time.Minute, false},
	{"FD/1D/B", 24 * time.Hour, false},
	{"VS/1Sec/T", time.Second, true},
	{"VM/1Min/T", time.Minute, true},
	{"VH/1H/T", time.Hour, true},
	{"VX/1Min/T", time.Minute, true}, // every write of this kind puts its records into the SAME second of one interval
}

type capSender struct{ tgs [][]byte }

func (c *capSender) Run(context.Context) {}
// Send keeps the slice it is given, like the real replication.Sender, which only queues it: a transaction
// group is read when it is transmitted, not when it is handed over (a serializer that re-used its buffer
// would show up as a wrong transaction on the replica)
func (c *capSender) Send(tg []byte) { c.tgs = append(c.tgs, tg) }

func init() {
	mc.Def(mc.Check{
		ID:    "C25",
		Level: "exploration",
		Rule: "write kinds {fixed 1Min, fixed 1D, variable 1Sec, variable 1Min, variable 1H, variable 1Min with all records of all writes in one second} (2 rows each, variable rows at sub-interval offsets with seconds and nanoseconds); every history of <=3 (thorough <=4) writes x every partition into consecutive groups, where the writes of a group are queued by concurrent writers before ONE flush of the real SyncWAL loop (so a group is one transaction, possibly mixing fixed and variable write sets); " +
			"the master's ReplicationSender is captured, a replica server on another root applies every transaction through the real Replayer (ParseTGData + WriteCSM); every bucket is then queried on both sides over the day and over sub-ranges. non-trivial = >=2 writes",
		Assume:   []string{"UTC", "master and replica are two server instances on one device with different roots (process globals are shared; both run without background sync at query time)", "variable timestamps may differ by one resolution step"},
		QuickMax: 6 * time.Minute, ThorMax: 20 * time.Minute,
	}, c25Enum, c25Run)
}

func c25Enum(c *mc.Ctx, yield func(c25Spec)) {
	var rec func(cur []int)
	rec = func(cur []int) {
		if n := len(cur); n > 0 {
			// compositions of n
			var comp func(rest int, acc []int)
			comp = func(rest int, acc []int) {
				if rest == 0 {
					yield(c25Spec{append([]int{}, cur...), append([]int{}, acc...)})
					return
				}
				for g := 1; g <= rest; g++ {
					comp(rest-g, append(acc, g))
				}
			}
			comp(n, nil)
		}
		maxLen := 3
		if c.Thorough() {
			maxLen = 4
		}
		if len(cur) == maxLen {
			return
		}
		for k := range c25Kinds {
			rec(append(cur, k))
		}
	}
	rec(nil)
}

func c25Rows(i, kind int) ([]time.Time, []int32) {
	k := c25Kinds[kind]
	if k.key == "VX/1Min/T" {
		b := time.Date(2021, 3, 1, 10, 0, 20, 0, time.UTC)
		return []time.Time{b.Add(time.Duration(100*(i+1)) * time.Millisecond), b.Add(time.Duration(500+i+1) * time.Millisecond)}, []int32{int32(100*(i+1) + 1), int32(100*(i+1) + 2)}
	}
	base := time.Date(2021, 3, 1, 10, 0, 0, 0, time.UTC)
	if k.tf == 24*time.Hour {
		base = time.Date(2021, 3, 1, 0, 0, 0, 0, time.UTC)
	}
	t1 := base.Add(time.Duration(i) * k.tf)
	t2 := t1.Add(3 * k.tf)
	if k.variable {
		// inside the interval: a third and two thirds of the interval plus some nanoseconds
		t1 = t1.Add(k.tf/3 + 250*time.Millisecond)
		t2 = t2.Add(2*k.tf/3 + 1)
	}
	return []time.Time{t1, t2}, []int32{int32(100*(i+1) + 1), int32(100*(i+1) + 2)}
}

func c25Run(c *mc.Ctx, s c25Spec) {
	d := world.FreshDevice()
	_ = d
	cap := &capSender{}
	var master *world.World
	var failed string
	sch := vrt.Run(nil, func(sc *vrt.Sched) {
		sc.NoForcedTimers = true
		// all writers of a group queue their commands and flush requests before the WAL writer runs
		sc.Policy = func(opts []string) int {
			for i, o := range opts {
				if strings.Contains(o, ":W") && !strings.Contains(o, "SyncWAL") {
					return i
				}
			}
			return 0
		}
	}, func() {
		w, obs := world.Start(world.Config{Root: "/data/master", BackgroundSync: true, ReplicationSender: cap})
		if !obs.OK() {
			failed = "master startup: " + obs.String()
			return
		}
		master = w
		vrt.Quiesce()
		i := 0
		for _, g := range s.Groups {
			var ths []*vrt.Thread
			for j := 0; j < g; j++ {
				wi, kind := i, s.Hist[i]
				i++
				ths = append(ths, vrt.Spawn(fmt.Sprintf("W%d", wi), func() {
					ts, tags := c25Rows(wi, kind)
					k := c25Kinds[kind]
					var err error
					if k.variable {
						err = w.WriteCS(k.key, csVar(ts, []string{"V"}, []any{tags}), true)
					} else {
						err = w.WriteCS(k.key, csFixed(ts, []string{"V"}, []any{tags}), false)
					}
					if err != nil {
						failed = fmt.Sprintf("master write %d: %v", wi, err)
					}
				}))
			}
			vrt.Join(ths...)
			vrt.Quiesce()
		}
	})
	if failed != "" || len(sch.Panics) > 0 || sch.Deadlock {
		c.Violate("master-failed", fmt.Sprint(failed, sch.Panics, sch.DeadInfo))
		return
	}
	mixed := false
	for _, tg := range cap.tgs {
		if p := world.Safely(func() {
			_, wts := executor.ParseTGData(tg, "/x")
			for _, wt := range wts {
				if wt.RecordType != wts[0].RecordType {
					mixed = true
				}
			}
		}); p != "" {
			c.Violate("master-tg-unparsable", p)
			return
		}
	}
	grp := "single-type-transactions"
	if mixed {
		grp = "mixed-transaction"
	}
	c.Eval(fmt.Sprint(s), len(s.Hist) >= 2)
	// replica
	rep, obs := world.Start(world.Config{Root: "/data/replica", BackgroundSync: false})
	if !obs.OK() {
		c.Violate("replica-startup", obs.String())
		return
	}
	defer rep.Close()
	rp := replication.NewReplayer(executor.ParseTGData, rep.Writer.WriteCSM, "/data/replica")
	for ti, tg := range cap.tgs {
		var err error
		if p := world.Safely(func() { err = rp.Replay(tg) }); p != "" {
			c.Violate("replica-panic|"+grp, fmt.Sprintf("history %v groups %v: replaying transaction %d panicked: %s", s.Hist, s.Groups, ti, p))
			return
		}
		if err != nil {
			c.Violate("replica-error|"+grp, fmt.Sprintf("history %v groups %v: replaying transaction %d of %d failed: %v", s.Hist, s.Groups, ti, len(cap.tgs), errClass(err)))
			c.Outcome("replica-error")
			return
		}
	}
	c.Outcome(fmt.Sprintf("%s/tgs=%d", grp, len(cap.tgs)))
	// compare
	day0 := time.Date(2021, 3, 1, 0, 0, 0, 0, time.UTC)
	ranges := [][2]time.Time{{day0, day0.Add(10 * 24 * time.Hour)}, {day0.Add(10 * time.Hour), day0.Add(10*time.Hour + 90*time.Second)}, {day0.Add(10*time.Hour + 30*time.Second), day0.Add(14 * time.Hour)}}
	used := map[int]bool{}
	for _, k := range s.Hist {
		used[k] = true
	}
	for ki, k := range c25Kinds {
		if !used[ki] {
			continue
		}
		rt := "fixed"
		if k.variable {
			rt = "variable"
		}
		step := int64(math.Ceil(float64(k.tf.Nanoseconds()) / 4294967296.0))
		for ri, rg := range ranges {
			mt, merr := master.Query(k.key, rg[0], rg[1], 0, false, nil)
			rtab, rerr := rep.Query(k.key, rg[0], rg[1], 0, false, nil)
			if (merr == nil) != (rerr == nil) {
				c.Violate("query-outcome-differs|"+rt+"|"+tfName(k.tf), fmt.Sprintf("history %v groups %v bucket %s range %d: master err=%v, replica err=%v", s.Hist, s.Groups, k.key, ri, merr, rerr))
				continue
			}
			if merr != nil {
				continue
			}
			mr, rr := rowsOf(mt), rowsOf(rtab)
			if len(mr) != len(rr) {
				c.Violate("rows-differ|"+rt+"|"+tfName(k.tf)+"|"+grp, fmt.Sprintf("history %v groups %v bucket %s range %d: master %s, replica %s", s.Hist, s.Groups, k.key, ri, fmtRows(mr), fmtRows(rr)))
				continue
			}
			for i := range mr {
				dt := mr[i].t.Sub(rr[i].t).Nanoseconds()
				if dt < 0 {
					dt = -dt
				}
				if mr[i].tag != rr[i].tag {
					c.Violate("rows-differ|"+rt+"|"+tfName(k.tf)+"|"+grp, fmt.Sprintf("history %v groups %v bucket %s: master %s, replica %s", s.Hist, s.Groups, k.key, fmtRows(mr), fmtRows(rr)))
					break
				}
				if dt > step {
					c.Violate("time-differs|"+rt+"|"+tfName(k.tf), fmt.Sprintf("history %v groups %v bucket %s: master row %s, replica row %s (resolution step %d ns)", s.Hist, s.Groups, k.key, fmtRows(mr[i:i+1]), fmtRows(rr[i:i+1]), step))
					break
				}
			}
		}
	}
	if len(s.Hist) == 3 && s.Hist[0] == 3 {
		c.Sample(map[string]any{"history": s.Hist, "groups": s.Groups, "transactions": len(cap.tgs), "mixed": mixed})
	}
}

func tfName(d time.Duration) string {
	switch d {
	case time.Second:
		return "1Sec"
	case time.Minute:
		return "1Min"
	case time.Hour:
		return "1H"
	}
	return "1D"
}
