package checks

import (
	"fmt"
	"sort"
	"strings"
	"time"

	"github.com/alpacahq/marketstore/v4/frontend"
	"github.com/alpacahq/marketstore/v4/utils/io"
	"github.com/alpacahq/marketstore/v4/verif/mc"
	"github.com/alpacahq/marketstore/v4/verif/world"
)

// C13 Multi-symbol and column-projected queries agree with single queries (through DataService.Query).

type c13Spec struct {
	Variable bool     `json:"variable"`
	Symbols  []string `json:"symbols"` // as named in the request ("*" allowed)
	Retyped  bool     `json:"retyped"` // world also holds symbol D whose Volume column is f8 instead of i4
	Wide     bool     `json:"wide,omitempty"` // world also holds symbol E with one more column (longer records): projected on shared columns a mixed query is well defined
}

var c13Cols = []string{"Open", "Close", "Volume", "Nope"}

func init() {
	mc.Def(mc.Check{
		ID:    "C13",
		Level: "exploration",
		Rule: "symbols A,B,C (same schema, different rows) plus optionally D (same column names, Volume retyped) or E (one more column, i.e. longer records); symbol lists = every non-empty ordered subset of {A,B,C} of size <=3, each also with a missing symbol added, with D added, and '*'; " +
			"column lists = every ordered tuple of length 0-3 (thorough 0-4) over {Open,Close,Volume,Nope} (duplicates, reorderings, unknown names); fixed and variable buckets; " +
			"every combination goes through DataService.Query and is compared per symbol with the single-symbol query. a case = (record type, symbol list) x all 85 column lists; non-trivial = >=2 existing symbols named",
		Assume:   []string{"UTC", "BackgroundSync=false", "an explicit error is accepted when the named symbols have different column types (documented limitation) or when every named symbol is missing"},
		QuickMax: 5 * time.Minute, ThorMax: 15 * time.Minute,
	}, c13Enum, c13Run)
}

func c13Enum(c *mc.Ctx, yield func(c13Spec)) {
	base := []string{"A", "B", "C"}
	var lists [][]string
	var rec func(cur []string)
	rec = func(cur []string) {
		if len(cur) > 0 {
			lists = append(lists, append([]string{}, cur...))
		}
		for _, s := range base {
			dup := false
			for _, x := range cur {
				if x == s {
					dup = true
				}
			}
			if !dup {
				rec(append(cur, s))
			}
		}
	}
	rec(nil)
	for _, v := range []bool{false, true} {
		for _, l := range lists {
			yield(c13Spec{v, l, false, false})
			yield(c13Spec{v, append(append([]string{}, l...), "MISSING"), false, false})
			yield(c13Spec{v, append([]string{"MISSING"}, l...), false, false})
			yield(c13Spec{v, append(append([]string{}, l...), "D"), true, false})
			if len(l) <= 2 {
				yield(c13Spec{Variable: v, Symbols: append(append([]string{}, l...), "E"), Wide: true})
				yield(c13Spec{Variable: v, Symbols: append([]string{"E"}, l...), Wide: true})
			}
		}
		yield(c13Spec{Variable: v, Symbols: []string{"*"}, Wide: true})
		yield(c13Spec{Variable: v, Symbols: []string{"E"}, Wide: true})
		yield(c13Spec{v, []string{"*"}, false, false})
		yield(c13Spec{v, []string{"*"}, true, false})
		yield(c13Spec{v, []string{"MISSING"}, false, false})
		yield(c13Spec{v, []string{"D"}, true, false})
	}
}

func c13Build(s c13Spec) (*world.World, error) {
	world.FreshDevice()
	w, obs := world.Start(world.Config{BackgroundSync: false})
	if !obs.OK() {
		return nil, fmt.Errorf("startup: %s", obs)
	}
	attr := "OHLC"
	base := time.Date(2021, 3, 1, 10, 0, 0, 0, time.UTC)
	syms := []string{"A", "B", "C"}
	if s.Retyped {
		syms = append(syms, "D")
	}
	if s.Wide {
		syms = append(syms, "E")
	}
	for si, sym := range syms {
		n := 2 + si
		times := make([]time.Time, n)
		o, cl := make([]float32, n), make([]float32, n)
		vi, vf := make([]int32, n), make([]float64, n)
		for i := 0; i < n; i++ {
			times[i] = base.Add(time.Duration(i*(si+1)) * time.Minute)
			if s.Variable {
				times[i] = times[i].Add(time.Duration(100*(i+1)) * time.Millisecond)
			}
			o[i], cl[i] = float32(100*(si+1)+i), float32(100*(si+1)+i)+0.5
			vi[i], vf[i] = int32(1000*(si+1)+i), float64(1000*(si+1)+i)+0.25
		}
		var vol any = vi
		if sym == "D" {
			vol = vf
		}
		names, cols := []string{"Open", "Close", "Volume"}, []any{o, cl, vol}
		if sym == "E" {
			names, cols = append(names, "Extra"), append(cols, vf)
		}
		var err error
		if s.Variable {
			err = w.WriteCS(sym+"/1Min/"+attr, csVar(times, names, cols), true)
		} else {
			err = w.WriteCS(sym+"/1Min/"+attr, csFixed(times, names, cols), false)
		}
		if err != nil {
			w.Close()
			return nil, err
		}
	}
	return w, nil
}

// c13Query runs one DataService.Query and returns per-symbol tables.
func c13Query(w *world.World, dest string, cols []string) (map[string]*world.Table, error) {
	req := &frontend.MultiQueryRequest{Requests: []frontend.QueryRequest{{Destination: dest, Columns: cols}}}
	resp := &frontend.MultiQueryResponse{}
	if err := w.DS.Query(nil, req, resp); err != nil {
		return nil, err
	}
	out := map[string]*world.Table{}
	for _, r := range resp.Responses {
		if r.Result == nil {
			continue
		}
		csm, err := r.Result.ToColumnSeriesMap()
		if err != nil {
			return nil, fmt.Errorf("decode: %w", err)
		}
		for k, cs := range csm {
			out[k.GetItemInCategory("Symbol")] = world.FromCS(cs)
		}
	}
	return out, nil
}

func c13Run(c *mc.Ctx, s c13Spec) {
	w, err := c13Build(s)
	if err != nil {
		c.Violate("fixture-build", err.Error())
		return
	}
	defer w.Close()
	rt := "fixed"
	if s.Variable {
		rt = "variable"
	}
	existing := map[string]bool{"A": true, "B": true, "C": true, "D": s.Retyped, "E": s.Wide}
	// single-symbol references
	single := map[string]*world.Table{}
	for sym, ok := range existing {
		if !ok {
			continue
		}
		m, err := c13Query(w, sym+"/1Min/OHLC", nil)
		if err != nil || m[sym] == nil {
			c.Violate("single-query-failed|"+rt, fmt.Sprintf("single query of %s: %v", sym, err))
			return
		}
		single[sym] = m[sym]
	}
	// expected symbol set
	named := map[string]bool{}
	star := false
	for _, sy := range s.Symbols {
		if sy == "*" {
			star = true
		}
		named[sy] = true
	}
	var expSyms []string
	for sym := range single {
		if star || named[sym] {
			expSyms = append(expSyms, sym)
		}
	}
	sort.Strings(expSyms)
	mixed, wide := false, false
	for _, sy := range expSyms {
		if sy == "D" && len(expSyms) > 1 {
			mixed = true
		}
		if sy == "E" && len(expSyms) > 1 {
			wide = true
		}
	}
	selClass := "list"
	switch {
	case star:
		selClass = "star"
	case mixed:
		selClass = "retyped-symbol"
	case wide:
		selClass = "wider-symbol"
	case named["MISSING"]:
		selClass = "missing-symbol"
	}
	dest := strings.Join(s.Symbols, ",") + "/1Min/OHLC"
	var colLists [][]string
	var rec func(cur []string)
	rec = func(cur []string) {
		colLists = append(colLists, append([]string{}, cur...))
		maxCols := 3
		if c.Thorough() {
			maxCols = 4
		}
		if len(cur) == maxCols {
			return
		}
		for _, n := range c13Cols {
			rec(append(cur, n))
		}
	}
	rec(nil)
	for _, cols := range colLists {
		colClass := "all"
		if len(cols) > 0 {
			colClass = "plain"
			seen := map[string]bool{}
			for _, n := range cols {
				if n == "Nope" {
					colClass = "unknown"
				}
				if seen[n] {
					colClass = "duplicate"
				}
				seen[n] = true
			}
		}
		var got map[string]*world.Table
		var qerr error
		if p := safely(func() { got, qerr = c13Query(w, dest, cols) }); p != "" {
			c.Violate("panic|"+rt+"|"+selClass+"|"+colClass, fmt.Sprintf("query %s columns %v panicked: %s", dest, cols, p))
			continue
		}
		c.Count("queries", 1)
		if qerr != nil {
			if len(expSyms) == 0 {
				c.Outcome("error:all-missing")
				continue
			}
			// projected on columns that all named symbols share with the same type, a mixed query is well defined
			mixedMatters := mixed && (len(cols) == 0 || contains(cols, "Volume"))
			if mixedMatters || (wide && len(cols) == 0) {
				c.Outcome("error:mixed-types")
				continue
			}
			c.Violate("query-error|"+rt+"|"+selClass+"|"+colClass, fmt.Sprintf("query %s columns %v failed: %v", dest, cols, qerr))
			continue
		}
		c.Outcome("ok:" + selClass)
		for _, sym := range expSyms {
			g := got[sym]
			if g == nil {
				c.Violate("symbol-missing|"+rt+"|"+selClass+"|"+colClass, fmt.Sprintf("query %s columns %v: no rows for %s", dest, cols, sym))
				continue
			}
			ref := single[sym]
			// expected columns: time columns + requested existing columns
			want := map[string]bool{"Epoch": true}
			if s.Variable {
				want["Nanoseconds"] = true
			}
			if len(cols) == 0 {
				for _, n := range ref.Cols {
					want[n] = true
				}
			}
			for _, n := range cols {
				if ref.Col(n) >= 0 {
					want[n] = true
				}
			}
			gotCols := map[string]bool{}
			for _, n := range g.Cols {
				if gotCols[n] {
					c.Violate("column-twice|"+rt+"|"+selClass+"|"+colClass, fmt.Sprintf("query %s columns %v: column %s returned twice for %s", dest, cols, n, sym))
				}
				gotCols[n] = true
			}
			for n := range want {
				if !gotCols[n] {
					c.Violate("column-missing|"+rt+"|"+selClass+"|"+colClass, fmt.Sprintf("query %s columns %v: column %s missing for %s (got %v)", dest, cols, n, sym, g.Cols))
				}
			}
			for n := range gotCols {
				if !want[n] {
					c.Violate("column-extra|"+rt+"|"+selClass+"|"+colClass, fmt.Sprintf("query %s columns %v: unrequested column %s returned for %s", dest, cols, n, sym))
				}
			}
			if g.Len() != ref.Len() {
				c.Violate("row-count|"+rt+"|"+selClass+"|"+colClass, fmt.Sprintf("query %s columns %v: %d rows for %s, alone it has %d", dest, cols, g.Len(), sym, ref.Len()))
				continue
			}
			for n := range want {
				gi, ri := g.Col(n), ref.Col(n)
				if gi < 0 || ri < 0 {
					continue
				}
				for r := 0; r < ref.Len(); r++ {
					if !sameVal(g.Rows[r][gi], ref.Rows[r][ri]) {
						c.Violate("value-differs|"+rt+"|"+selClass+"|"+colClass, fmt.Sprintf("query %s columns %v: %s row %d column %s = %v (%T), alone %v (%T)", dest, cols, sym, r, n,
							world.FmtVal(g.Rows[r][gi]), g.Rows[r][gi], world.FmtVal(ref.Rows[r][ri]), ref.Rows[r][ri]))
						break
					}
				}
			}
		}
		for sym := range got {
			if !contains(expSyms, sym) {
				c.Violate("symbol-extra|"+rt+"|"+selClass+"|"+colClass, fmt.Sprintf("query %s: rows for unnamed symbol %s", dest, sym))
			}
		}
	}
	c.Eval(fmt.Sprint(s), len(expSyms) >= 2)
	c.Sample(map[string]any{"destination": dest, "variable": s.Variable, "column_lists": len(colLists), "existing_symbols_named": expSyms})
}

func contains(l []string, s string) bool {
	for _, x := range l {
		if x == s {
			return true
		}
	}
	return false
}

var _ = io.NewColumnSeries
