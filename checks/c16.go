package checks

import (
	"fmt"
	"sort"
	"strings"
	"time"

	"github.com/alpacahq/marketstore/v4/verif/mc"
	"github.com/alpacahq/marketstore/v4/verif/rt/vos"
	"github.com/alpacahq/marketstore/v4/verif/world"
)

// C16 No request can touch files outside the data root.

type c16Spec struct {
	Key string   `json:"key"`
	Ops []string `json:"ops"` // create | write | query | getinfo | destroy
}

var c16Alpha = []string{"A", "1Min", "..", ".", "", "a b", "*", "A,B", "x:y", "/abs"}

func init() {
	mc.Def(mc.Check{
		ID:    "C16",
		Level: "exploration",
		Rule: "keys = every sequence of 1-4 components over {A, 1Min, .., ., '', 'a b', *, 'A,B', 'x:y', '/abs'} joined by '/' (11110 keys) x operations {create, write (auto-create), query, getinfo, destroy}, " +
			"plus create-then-destroy and write-then-destroy for keys containing '..'; the device holds a tree around the data root (sibling bucket-shaped directories, files in / and /data) and everything outside the root is hashed before and after. " +
			"non-trivial = key contains '..', an empty or an absolute-looking component",
		Assume:   []string{"vos device: '..' resolution as by filepath.Clean (no symlinks)", "BackgroundSync=false"},
		QuickMax: 5 * time.Minute, ThorMax: 15 * time.Minute,
	}, c16Enum, c16Run)
}

func c16Enum(c *mc.Ctx, yield func(c16Spec)) {
	var rec func(cur []string)
	rec = func(cur []string) {
		if len(cur) > 0 {
			key := strings.Join(cur, "/")
			for _, op := range []string{"create", "write", "query", "getinfo", "destroy"} {
				yield(c16Spec{key, []string{op}})
			}
			if strings.Contains(key, "..") {
				yield(c16Spec{key, []string{"create", "destroy"}})
				yield(c16Spec{key, []string{"write", "destroy"}})
			}
		}
		if len(cur) == 4 {
			return
		}
		for _, a := range c16Alpha {
			rec(append(cur, a))
		}
	}
	rec(nil)
}

// c16Outside lists everything outside the root: path -> "D" or "F:<size>:<hash>".
func c16Outside() map[string]string {
	m := map[string]string{}
	vos.Cur().FS().Walk("/", func(p string, dir bool, size int64, read func() []byte) {
		if p == world.Root || strings.HasPrefix(p, world.Root+"/") {
			return
		}
		if dir {
			m[p] = "D"
		} else {
			m[p] = fmt.Sprintf("F:%d:%x", size, mc.Hash(string(read())))
		}
	})
	return m
}

func c16KeyClass(key string) string {
	parts := strings.Split(key, "/")
	switch {
	case contains(parts, ".."):
		return "dotdot"
	case strings.Contains(key, "/abs") || strings.HasPrefix(key, "/"):
		return "absolute"
	case contains(parts, ""):
		return "empty-component"
	case len(parts) > 3:
		return "extra-component"
	}
	return "plain"
}

func c16Run(c *mc.Ctx, s c16Spec) {
	d := world.FreshDevice()
	// bucket-shaped trees outside the root, named with alphabet symbols so that traversal keys can hit them
	d.SetLogging(false)
	for _, p := range []string{"/data/A/1Min/A", "/data/1Min/A/A", "/A/1Min/A", "/data/A/A", "/abs/1Min/A"} {
		_ = d.MkdirAll(p, 0o770)
		_ = d.WriteFile(p+"/2021.bin", []byte("outside bucket data "+p), 0o600)
	}
	d.SetLogging(true)
	w, obs := world.Start(world.Config{BackgroundSync: false})
	if !obs.OK() {
		c.Violate("startup-failed", obs.String())
		return
	}
	defer w.Close()
	// something legitimate inside the root, so that destroy/query have a catalog to work on
	_ = w.WriteCS("A/1Min/A", csFixed([]time.Time{time.Date(2021, 3, 1, 10, 0, 0, 0, time.UTC)}, []string{"V"}, []any{[]int32{1}}), false)
	before := c16Outside()
	kc := c16KeyClass(s.Key)
	c.Eval(fmt.Sprint(s), kc == "dotdot" || kc == "absolute" || kc == "empty-component")
	for _, op := range s.Ops {
		pan := safely(func() {
			switch op {
			case "create":
				_ = w.Create(s.Key, []string{"V"}, []string{"i4"}, false)
			case "write":
				_ = w.WriteCS(s.Key, csFixed([]time.Time{time.Date(2021, 3, 1, 10, 0, 0, 0, time.UTC)}, []string{"V"}, []any{[]int32{7}}), false)
			case "query":
				_, _ = w.QueryAll(s.Key)
			case "getinfo":
				_, _ = w.GetInfo(s.Key)
			case "destroy":
				_ = w.Destroy(s.Key)
			}
		})
		if pan != "" {
			// a panic of the request handler is not what this property is about; what it left outside the root is
			c.Outcome("handler-panic")
			c.Count("handler_panics", 1)
		}
		after := c16Outside()
		var created, deleted, modified []string
		for p, v := range after {
			if o, ok := before[p]; !ok {
				created = append(created, p)
			} else if o != v {
				modified = append(modified, p)
			}
		}
		for p := range before {
			if _, ok := after[p]; !ok {
				deleted = append(deleted, p)
			}
		}
		sort.Strings(created)
		sort.Strings(deleted)
		sort.Strings(modified)
		opsig := strings.Join(s.Ops, "+")
		switch {
		case len(deleted) > 0:
			c.Violate("outside-delete|"+opsig+"|"+kc, fmt.Sprintf("%s of key %q deleted %v outside the root %s", op, s.Key, first3(deleted), world.Root))
		case len(created) > 0:
			c.Violate("outside-create|"+opsig+"|"+kc, fmt.Sprintf("%s of key %q created %v outside the root %s", op, s.Key, first3(created), world.Root))
		case len(modified) > 0:
			c.Violate("outside-modify|"+opsig+"|"+kc, fmt.Sprintf("%s of key %q modified %v outside the root %s", op, s.Key, first3(modified), world.Root))
		}
		if len(deleted)+len(created)+len(modified) > 0 {
			c.Outcome("escaped")
			return
		}
		before = after
	}
	c.Outcome("contained:" + kc)
	if kc == "dotdot" && len(s.Ops) == 2 {
		c.Sample(map[string]any{"key": s.Key, "ops": s.Ops})
	}
}

func first3(l []string) []string {
	if len(l) > 3 {
		return append(l[:3:3], fmt.Sprintf("… (%d)", len(l)))
	}
	return l
}
