package checks

import (
	"fmt"
	"reflect"

	"github.com/alpacahq/marketstore/v4/utils/io"
	"github.com/alpacahq/marketstore/v4/verif/mc"
)

// C29 Row serialization round-trips with alignment.

type c29Spec struct {
	Types []string `json:"types"`
	Rows  int      `json:"rows"`
	Align bool     `json:"align"`
}

func init() {
	mc.Def(mc.Check{
		ID:    "C29",
		Level: "exploration",
		Rule: "every schema of 1-3 columns over the 11 fixed-width types x row counts 0-3 x align {true,false}, boundary values; " +
			"SerializeColumnsToRows -> NewRowSeries(...).ToColumnSeries, and ColumnSeries.ToRowSeries -> ToColumnSeries. distinct by (types, rows, align); non-trivial = rows>0",
		Shards:   4,
		QuickMax: 3 * time3, ThorMax: 10 * time3,
	}, c29Enum, c29Run)
}

func c29Enum(c *mc.Ctx, yield func(c29Spec)) {
	var rec func(cur []string)
	rec = func(cur []string) {
		if len(cur) > 0 {
			for r := 0; r <= 3; r++ {
				yield(c29Spec{append([]string{}, cur...), r, false})
				yield(c29Spec{append([]string{}, cur...), r, true})
			}
		}
		maxLen := 3
		if c.Thorough() {
			maxLen = 4
		}
		if len(cur) == maxLen {
			return
		}
		for _, t := range allTypes {
			rec(append(cur, t))
		}
	}
	rec(nil)
}

func c29Run(c *mc.Ctx, s c29Spec) {
	cs := c27MakeCS(s.Types, s.Rows, 1)
	// keep a pristine copy: SerializeColumnsToRows may coerce in place
	orig := c27MakeCS(s.Types, s.Rows, 1)
	dsv := cs.GetDataShapes()
	var data []byte
	var recLen int
	var err error
	if p := safely(func() { data, recLen, err = io.SerializeColumnsToRows(cs, dsv, s.Align) }); p != "" {
		c.Violate("panic|serialize", p)
		return
	}
	c.Eval(fmt.Sprint(s), s.Rows > 0)
	c.Outcome(fmt.Sprintf("reclen%%8=%d", recLen%8))
	if err != nil {
		c.Violate("serialize-error", err.Error())
		return
	}
	if s.Align && recLen%8 != 0 {
		c.Violate("not-aligned", fmt.Sprintf("record length %d with alignment requested", recLen))
	}
	var got *io.ColumnSeries
	if p := safely(func() {
		rs := io.NewRowSeries(*io.NewTimeBucketKey("S/1Min/X"), data, dsv, recLen, io.FIXED)
		_, got = rs.ToColumnSeries()
	}); p != "" {
		c.Violate("panic|deserialize", p)
		return
	}
	if !c29Same(c, s, orig, got, "") {
		return
	}
	// the same round trip through the convenience wrapper ColumnSeries.ToRowSeries
	var got2 *io.ColumnSeries
	var err2 error
	if p := safely(func() {
		var rs *io.RowSeries
		rs, err2 = c27MakeCS(s.Types, s.Rows, 1).ToRowSeries(*io.NewTimeBucketKey("S/1Min/X"), s.Align)
		if err2 == nil {
			_, got2 = rs.ToColumnSeries()
		}
	}); p != "" {
		c.Violate("panic|to-row-series", p)
		return
	}
	if err2 != nil {
		c.Violate("serialize-error|to-row-series", err2.Error())
		return
	}
	c29Same(c, s, orig, got2, "|to-row-series")
	c.Sample(map[string]any{"types": s.Types, "rows": s.Rows, "align": s.Align, "record_len": recLen})
}

// c29Same compares the columns read back with the originals.
func c29Same(c *mc.Ctx, s c29Spec, orig, got *io.ColumnSeries, path string) bool {
	if !reflect.DeepEqual(orig.GetColumnNames(), got.GetColumnNames()) {
		c.Violate("column-names"+path, fmt.Sprintf("%v became %v", orig.GetColumnNames(), got.GetColumnNames()))
		return false
	}
	for ci, nm := range orig.GetColumnNames() {
		a, b := orig.GetColumn(nm), got.GetColumn(nm)
		ty := "i8"
		if ci > 0 {
			ty = s.Types[ci-1]
		}
		if reflect.TypeOf(a) != reflect.TypeOf(b) {
			c.Violate("column-type|"+ty+path, fmt.Sprintf("column %s: %T became %T", nm, a, b))
			return false
		}
		if lenOf(a) != lenOf(b) {
			c.Violate("column-length|"+ty+path, fmt.Sprintf("column %s: %d values became %d (align=%v)", nm, lenOf(a), lenOf(b), s.Align))
			return false
		}
		for i := 0; i < lenOf(a); i++ {
			if !sameVal(indexOf(a, i), indexOf(b, i)) {
				c.Violate("column-value|"+ty+path, fmt.Sprintf("column %s row %d: %v became %v (align=%v, types %v)", nm, i, indexOf(a, i), indexOf(b, i), s.Align, s.Types))
				return false
			}
		}
	}
	return true
}
