package checks

import (
	"encoding/binary"
	"fmt"
	"reflect"
	"strings"
	"time"

	"github.com/alpacahq/marketstore/v4/executor"
	"github.com/alpacahq/marketstore/v4/executor/wal"
	"github.com/alpacahq/marketstore/v4/utils/io"
	"github.com/alpacahq/marketstore/v4/verif/mc"
	"github.com/alpacahq/marketstore/v4/verif/rt/vos"
	"github.com/alpacahq/marketstore/v4/verif/world"
)

// C28 WAL transaction records round-trip.
//
// Two passes. "real": a bucket is created and written through the server's write path, the WAL file
// is read from the device with the independent decoder (mc.DecodeWAL), the transaction is decoded by
// ParseTGData and compared with what was written (only accepted writes are judged). "synthetic":
// write commands of the shapes the real pass showed to be acceptable, with extreme offsets/indices
// and 1-3 commands per transaction, through FlushCommandsToWAL (the serialized transaction as handed to the replication sender) -> ParseTGData.

type c28Spec struct {
	Pass     string `json:"pass"` // real | synthetic
	NameLen  int    `json:"name_len"`
	NCols    int    `json:"ncols"`
	Variable bool   `json:"variable"`
	Rows     int    `json:"rows"`
	SymLen   int    `json:"sym_len"` // length of the symbol component of the key
	NCmd     int    `json:"ncmd,omitempty"`
	Ext      int    `json:"ext,omitempty"` // offset/index extreme selector
	Recreate bool   `json:"recreate,omitempty"` // real pass: the bucket existed before with another schema, was written and destroyed
}

var c28NameLens = []int{1, 31, 32, 33, 64, 255, 256, 300}
var c28NCols = []int{1, 2, 3, 255, 256}

func init() {
	mc.Def(mc.Check{
		ID:    "C28",
		Level: "exploration",
		Rule: "real pass: column-name lengths {1,31,32,33,64,255,256,300} x column counts {1,2,3,255,256} x {fixed,variable} x payload {1 row, 3 rows in 3 intervals, 1000 records in one interval (variable) / 150 intervals (fixed)} x symbol length {4, 200, 255}: " +
			"create + write through the server, decode the WAL's transaction with ParseTGData, compare file, record type, offset, index, payload, schema (also for a bucket that existed before under the same key with another schema and was destroyed); " +
			"synthetic pass: the accepted shapes x 1-3 commands x offset/index extremes through FlushCommandsToWAL (the serialized transaction as handed to the replication sender) -> ParseTGData. distinct by spec; non-trivial = write accepted",
		Assume:   []string{"synthetic pass: commands are encoded by the exported FlushCommandsToWAL and captured at the replication sender", "independent WAL decoder mc/walfmt.go"},
		QuickMax: 4 * time.Minute, ThorMax: 15 * time.Minute,
	}, c28Enum, c28Run)
}

func c28Enum(c *mc.Ctx, yield func(c28Spec)) {
	for _, v := range []bool{false, true} {
		for _, nl := range c28NameLens {
			for _, nc := range c28NCols {
				if nl > 64 && nc > 3 && !c.Thorough() {
					continue
				}
				for _, rows := range []int{1, 3, 1000} {
					for _, sl := range []int{4, 200, 255} {
						if sl != 4 && (nc > 3 || rows == 1000) {
							continue
						}
						yield(c28Spec{Pass: "real", NameLen: nl, NCols: nc, Variable: v, Rows: rows, SymLen: sl})
					}
				}
				if nl == 31 && nc <= 3 {
					yield(c28Spec{Pass: "real", NameLen: nl, NCols: nc, Variable: v, Rows: 3, SymLen: 4, Recreate: true})
				}
				for ncmd := 1; ncmd <= 3; ncmd++ {
					for ext := 0; ext < 4; ext++ {
						yield(c28Spec{Pass: "synthetic", NameLen: nl, NCols: nc, Variable: v, Rows: 1, SymLen: 4, NCmd: ncmd, Ext: ext})
					}
				}
			}
		}
	}
}

func c28Names(nl, nc int) []string {
	names := make([]string, nc)
	for i := range names {
		s := fmt.Sprintf("c%d_", i)
		if len(s) > nl {
			s = s[:nl]
			if nc > 1 && nl == 1 {
				s = string(rune('a' + i%26))
			}
		}
		names[i] = s + strings.Repeat("x", nl-len(s))
	}
	return names
}

func c28NameClass(nl, nc int) string {
	// root-cause classes of the one-byte length fields of the schema encoding: a column name longer
	// than 255 bytes, or more than 255 schema entries (the columns plus Epoch)
	switch {
	case nl > 255 && nc+1 > 255:
		return "name>255+shapes>255"
	case nl > 255:
		return "name>255"
	case nc+1 > 255:
		return "shapes>255"
	}
	return "representable"
}

func c28Run(c *mc.Ctx, s c28Spec) {
	if s.NCols > 26 && s.NameLen == 1 {
		c.Eval(fmt.Sprint(s), false)
		c.Outcome("skipped:names-not-unique")
		return
	}
	names := c28Names(s.NameLen, s.NCols)
	cls := c28NameClass(s.NameLen, s.NCols)
	rt := "fixed"
	if s.Variable {
		rt = "variable"
	}
	if s.Pass == "synthetic" {
		c28Synthetic(c, s, names, cls, rt)
		return
	}
	world.FreshDevice()
	w, obs := world.Start(world.Config{BackgroundSync: false})
	if !obs.OK() {
		c.Violate("startup-failed", obs.String())
		return
	}
	defer w.Close()
	sym := "SYMB" + strings.Repeat("y", s.SymLen-4)
	key := sym + "/1Min/OHLC"
	types := make([]string, s.NCols)
	for i := range types {
		types[i] = "i4"
	}
	if s.Recreate {
		// an earlier incarnation of the same key with another schema, in the same server process
		t0 := time.Date(2021, 3, 4, 9, 0, 0, 0, time.UTC)
		old := csFixed([]time.Time{t0}, []string{"Old", "Older"}, []any{[]float64{1.5}, []float64{2.5}})
		if s.Variable {
			old = csVar([]time.Time{t0}, []string{"Old", "Older"}, []any{[]float64{1.5}, []float64{2.5}})
		}
		if err := w.Create(key, []string{"Old", "Older"}, []string{"f8", "f8"}, s.Variable); err != nil {
			c.Violate("harness|recreate", "first create: "+err.Error())
			return
		}
		if err := w.WriteCS(key, old, s.Variable); err != nil {
			c.Violate("harness|recreate", "first write: "+err.Error())
			return
		}
		if err := w.Destroy(key); err != nil {
			c.Violate("harness|recreate", "destroy: "+err.Error())
			return
		}
		cls += "|recreated-bucket"
	}
	if err := w.Create(key, names, types, s.Variable); err != nil {
		c.Eval(fmt.Sprint(s), false)
		c.Outcome("create-rejected")
		return
	}
	// rows
	base := time.Date(2021, 3, 4, 10, 0, 0, 0, time.UTC)
	var times []time.Time
	for r := 0; r < s.Rows; r++ {
		switch {
		case s.Rows == 1000 && s.Variable:
			times = append(times, base.Add(time.Duration(r)*time.Millisecond))
		case s.Rows == 1000:
			if r >= 150 {
				continue
			}
			times = append(times, base.Add(time.Duration(r)*time.Minute))
		default:
			times = append(times, base.Add(time.Duration(r)*time.Minute))
		}
	}
	cols := make([]any, s.NCols)
	for ci := range cols {
		v := make([]int32, len(times))
		for r := range v {
			v[r] = int32(1000*ci + r + 1)
		}
		cols[ci] = v
	}
	var cs *io.ColumnSeries
	if s.Variable {
		cs = csVar(times, names, cols)
	} else {
		cs = csFixed(times, names, cols)
	}
	before := vos.Cur().LogLen()
	var werr error
	if p := safely(func() { werr = w.WriteCS(key, cs, s.Variable) }); p != "" {
		c.Violate("panic|write|"+cls, "write panicked: "+p)
		return
	}
	if werr != nil {
		c.Eval(fmt.Sprint(s), false)
		c.Outcome("write-rejected")
		return
	}
	c.Eval(fmt.Sprint(s), true)
	c.Outcome("accepted")
	// find the WAL file and its last transaction
	var walPath string
	for _, op := range vos.Cur().Log()[before:] {
		if op.Kind == vos.OpWrite && strings.HasSuffix(op.Path, ".walfile") {
			walPath = op.Path
		}
	}
	var tg *mc.WALMsg
	msgs := mc.DecodeWAL(vos.Cur().FS().ReadAll(walPath))
	for i := range msgs {
		if msgs[i].Kind == "TG" {
			tg = &msgs[i]
		}
	}
	if tg == nil {
		c.Violate("no-tg-in-wal|"+cls, "accepted write left no checksum-valid transaction record in the WAL "+walPath)
		return
	}
	var wts []wal.WTSet
	if p := safely(func() { _, wts = executor.ParseTGData(tg.Body, world.Root) }); p != "" {
		c.Violate("panic|decode|"+cls, "ParseTGData panicked on a record written by the server: "+p)
		return
	}
	// expectation: one command per distinct interval, in time order
	type exp struct {
		index int64
		rows  []int
	}
	var exps []exp
	for r, t := range times {
		idx := io.TimeToIndex(t, time.Minute)
		if n := len(exps); n > 0 && exps[n-1].index == idx {
			exps[n-1].rows = append(exps[n-1].rows, r)
		} else {
			exps = append(exps, exp{idx, []int{r}})
		}
	}
	if len(wts) != len(exps) {
		c.Violate("command-count|"+cls, fmt.Sprintf("%d commands decoded, %d written", len(wts), len(exps)))
		return
	}
	recLen := int32(io.AlignedSize(8 + 4*s.NCols))
	varRecLen := 0
	if s.Variable {
		recLen = 24
		varRecLen = 4*s.NCols + 4
	}
	wantPath := world.Root + "/" + key + "/2021.bin"
	wantShapes := []io.DataShape{{Name: "Epoch", Type: io.INT64}}
	for _, n := range names {
		wantShapes = append(wantShapes, io.DataShape{Name: n, Type: io.INT32})
	}
	for i, e := range exps {
		wt := wts[i]
		switch {
		case wt.FilePath != wantPath:
			c.Violate("field:path|"+cls, fmt.Sprintf("command %d: file %q, want %q", i, trunc(wt.FilePath), trunc(wantPath)))
		case wt.RecordType != map[bool]io.EnumRecordType{false: io.FIXED, true: io.VARIABLE}[s.Variable]:
			c.Violate("field:recordtype|"+cls, fmt.Sprintf("command %d: record type %v", i, wt.RecordType))
		case wt.VarRecLen != varRecLen:
			c.Violate("field:varreclen|"+cls, fmt.Sprintf("command %d: varRecLen %d, want %d", i, wt.VarRecLen, varRecLen))
		case wt.Buffer.Index() != e.index:
			c.Violate("field:index|"+cls, fmt.Sprintf("command %d: index %d, want %d", i, wt.Buffer.Index(), e.index))
		case wt.Buffer.Offset() != io.IndexToOffset(e.index, recLen):
			c.Violate("field:offset|"+cls, fmt.Sprintf("command %d: offset %d, want %d", i, wt.Buffer.Offset(), io.IndexToOffset(e.index, recLen)))
		case !reflect.DeepEqual(wt.DataShapes, wantShapes):
			c.Violate("field:schema|"+cls, fmt.Sprintf("command %d: schema of %d columns decoded as %d columns (first %q)", i, len(wantShapes), len(wt.DataShapes), firstName(wt.DataShapes)))
		default:
			// payload: per row the int32 columns (+4 bytes of ticks for variable records)
			per := 4 * s.NCols
			if s.Variable {
				per += 4
			}
			pl := wt.Buffer.Payload()
			if len(pl) != per*len(e.rows) {
				c.Violate("field:payload-length|"+cls, fmt.Sprintf("command %d: payload %d bytes, want %d", i, len(pl), per*len(e.rows)))
				break
			}
			for k, r := range e.rows {
				for ci := 0; ci < s.NCols; ci++ {
					if got := io.ToInt32(pl[k*per+4*ci:]); got != int32(1000*ci+r+1) {
						c.Violate("field:payload|"+cls, fmt.Sprintf("command %d row %d column %d: %d, want %d", i, k, ci, got, 1000*ci+r+1))
					}
				}
			}
		}
	}
	c.Sample(map[string]any{"pass": "real", "name_len": s.NameLen, "ncols": s.NCols, "variable": s.Variable, "rows": len(times), "commands": len(wts), "tg_bytes": len(tg.Body)})
}

func trunc(s string) string {
	if len(s) > 80 {
		return s[:40] + "…" + s[len(s)-30:]
	}
	return s
}

func firstName(d []io.DataShape) string {
	if len(d) == 0 {
		return ""
	}
	return trunc(d[0].Name)
}

func c28Synthetic(c *mc.Ctx, s c28Spec, names []string, cls, rt string) {
	shapes := []io.DataShape{{Name: "Epoch", Type: io.INT64}}
	for _, n := range names {
		shapes = append(shapes, io.DataShape{Name: n, Type: io.INT32})
	}
	ext := [][2]int64{{37024, 1}, {0, 0}, {1<<63 - 1, 1<<63 - 1}, {-1, -1}}[s.Ext]
	var cmds []*wal.WriteCommand
	for k := 0; k < s.NCmd; k++ {
		data := make([]byte, 4*s.NCols)
		for i := range data {
			data[i] = byte(i*7 + k + 1)
		}
		rtv, vrl := io.FIXED, 0
		if s.Variable {
			rtv, vrl = io.VARIABLE, 4*s.NCols+4
			data = append(data, 1, 2, 3, 4)
		}
		cmds = append(cmds, &wal.WriteCommand{RecordType: rtv, WALKeyPath: fmt.Sprintf("SYM%d/1Min/OHLC/2021.bin", k), VarRecLen: vrl,
			Offset: ext[0] + int64(k), Index: ext[1], Data: data, DataShapes: shapes})
	}
	// encode through the server's own flush (exported FlushCommandsToWAL); the serialized transaction is what the
	// server hands to its replication sender. No private symbol is referenced, so a refactoring of the encoder's
	// internals cannot break the build of this check.
	var body []byte
	{
		world.FreshDevice()
		cap := &capSender{}
		w, obs := world.Start(world.Config{BackgroundSync: false, ReplicationSender: cap})
		if !obs.OK() {
			c.Violate("startup-failed", obs.String())
			return
		}
		p := safely(func() { _ = w.WAL.FlushCommandsToWAL(cmds) })
		w.Close()
		if p != "" {
			c.Violate("panic|encode|"+cls, p)
			return
		}
		if len(cap.tgs) == 0 {
			c.Violate("no-transaction-sent|"+cls, "FlushCommandsToWAL handed nothing to the replication sender")
			return
		}
		body = cap.tgs[len(cap.tgs)-1]
	}
	// only shapes the real write path accepts are judged: probe acceptance with a create + one-row write
	if !c28Accepted(s, names) {
		c.Eval(fmt.Sprint(s), false)
		c.Outcome("synthetic:shape-not-accepted-by-write-path")
		return
	}
	c.Eval(fmt.Sprint(s), true)
	c.Outcome("synthetic")
	var wts []wal.WTSet
	var id int64
	if p := safely(func() { id, wts = executor.ParseTGData(body, "/r") }); p != "" {
		c.Violate("panic|decode|"+cls, "ParseTGData panicked on serializeTG output: "+p)
		return
	}
	if len(body) < 8 || id != int64(binary.LittleEndian.Uint64(body)) || len(wts) != len(cmds) {
		c.Violate("field:header|"+cls, fmt.Sprintf("tgid %d commands %d", id, len(wts)))
		return
	}
	for i, cmd := range cmds {
		wt := wts[i]
		if wt.FilePath != "/r/"+cmd.WALKeyPath || wt.RecordType != cmd.RecordType || wt.VarRecLen != cmd.VarRecLen ||
			wt.Buffer.Offset() != cmd.Offset || wt.Buffer.Index() != cmd.Index || string(wt.Buffer.Payload()) != string(cmd.Data) ||
			!reflect.DeepEqual(wt.DataShapes, cmd.DataShapes) {
			c.Violate("field-shift|"+cls, fmt.Sprintf("command %d of %d decoded differently: path %q off %d idx %d payload %d bytes, %d columns", i, len(cmds), trunc(wt.FilePath), wt.Buffer.Offset(), wt.Buffer.Index(), len(wt.Buffer.Payload()), len(wt.DataShapes)))
			return
		}
	}
}

func c28Accepted(s c28Spec, names []string) bool {
	world.FreshDevice()
	w, obs := world.Start(world.Config{BackgroundSync: false})
	if !obs.OK() {
		return false
	}
	defer w.Close()
	types := make([]string, s.NCols)
	cols := make([]any, s.NCols)
	for i := range types {
		types[i] = "i4"
		cols[i] = []int32{int32(i)}
	}
	if err := w.Create("SYMB/1Min/OHLC", names, types, s.Variable); err != nil {
		return false
	}
	ts := []time.Time{time.Date(2021, 3, 4, 10, 0, 0, 0, time.UTC)}
	var err error
	ok := safely(func() {
		if s.Variable {
			err = w.WriteCS("SYMB/1Min/OHLC", csVar(ts, names, cols), true)
		} else {
			err = w.WriteCS("SYMB/1Min/OHLC", csFixed(ts, names, cols), false)
		}
	}) == ""
	return ok && err == nil
}
