package checks

import (
	"encoding/csv"
	"fmt"
	"strings"
	"time"

	"github.com/alpacahq/marketstore/v4/cmd/connect/loader"
	"github.com/alpacahq/marketstore/v4/cmd/connect/session"
	"github.com/alpacahq/marketstore/v4/frontend"
	"github.com/alpacahq/marketstore/v4/utils/io"
	"github.com/alpacahq/marketstore/v4/verif/mc"
	"github.com/alpacahq/marketstore/v4/verif/rt/vos"
	"github.com/alpacahq/marketstore/v4/verif/world"
)

// C33 CSV import loads every row or reports an error.

type c33Spec struct {
	Rows   int    `json:"rows"`   // data rows in the file
	Fault  string `json:"fault"`  // "" | missing-field | extra-field | bad-number | bad-time | bare-quote
	FRow   int    `json:"frow"`   // row of the fault
	FField int    `json:"ffield"` // field of the fault (0 = time, 1 = Open, 2 = Volume)
	Chunk  int    `json:"chunk"`  // 0 = through the client's load command; >0 = CSVtoNumpyMulti with this chunk size
	Header bool   `json:"header"` // first row has column names (else a columnNameMap in the control file)
}

type apiAdapter struct{ w *world.World }

func (a *apiAdapter) PrintConnectInfo() {}
func (a *apiAdapter) Create(r *frontend.MultiCreateRequest, s *frontend.MultiServerResponse) error {
	return a.w.DS.Create(nil, r, s)
}
func (a *apiAdapter) Write(r *frontend.MultiWriteRequest, s *frontend.MultiServerResponse) error {
	return a.w.DS.Write(nil, r, s)
}
func (a *apiAdapter) Destroy(r *frontend.MultiKeyRequest, s *frontend.MultiServerResponse) error {
	return a.w.DS.Destroy(nil, r, s)
}
func (a *apiAdapter) Show(tbk *io.TimeBucketKey, start, end *time.Time) (io.ColumnSeriesMap, error) {
	return nil, fmt.Errorf("not used")
}
func (a *apiAdapter) GetBucketInfo(r *frontend.MultiKeyRequest, s *frontend.MultiGetInfoResponse) error {
	return a.w.DS.GetInfo(nil, r, s)
}
func (a *apiAdapter) SQL(line string) (*io.ColumnSeries, error) { return nil, fmt.Errorf("not used") }

func init() {
	mc.Def(mc.Check{
		ID:    "C33",
		Level: "exploration",
		Rule: "bucket (Epoch, Open f4, Volume i4); CSV files of 0-3 (thorough 0-5) data rows, fault-free or with ONE fault from {missing field, extra field, unparsable number, unparsable time, bare quote, integer outside the column type's range} at EVERY (row, field) position; imported through the client's \\\\load handler (real session code, API client bound to the server) and through loader.CSVtoNumpyMulti with chunk sizes {1,2,3,1000} (thorough {1..6,1000}); with a header row and with a column-name map. " +
			"oracle: an error is reported, or the bucket holds every data row with the parsed values. non-trivial = files with a fault",
		Assume:   []string{"UTC", "time format 20060102 15:04:05", "CSV and control files live on the vos device (cmd/connect packages are os-rewritten)", "export hook VerifLoad in package session"},
		QuickMax: 5 * time.Minute, ThorMax: 15 * time.Minute,
	}, c33Enum, c33Run)
}

func c33Enum(c *mc.Ctx, yield func(c33Spec)) {
	faults := []string{"missing-field", "extra-field", "bad-number", "bad-time", "bare-quote", "out-of-range"}
	for _, hdr := range []bool{true, false} {
		chunks, maxRows := []int{0, 1, 2, 3, 1000}, 3
		if c.Thorough() {
			chunks, maxRows = []int{0, 1, 2, 3, 4, 5, 6, 1000}, 5
		}
		for _, chunk := range chunks {
			for rows := 0; rows <= maxRows; rows++ {
				yield(c33Spec{Rows: rows, Chunk: chunk, Header: hdr})
				for _, f := range faults {
					for r := 0; r < rows; r++ {
						for fld := 0; fld < 3; fld++ {
							if f == "bad-number" && fld == 0 || f == "bad-time" && fld != 0 || f == "out-of-range" && fld != 2 {
								continue
							}
							yield(c33Spec{Rows: rows, Fault: f, FRow: r, FField: fld, Chunk: chunk, Header: hdr})
						}
					}
				}
			}
		}
	}
}

func c33File(s c33Spec) (text string, want [][3]string) {
	var sb strings.Builder
	if s.Header {
		sb.WriteString("Epoch,Open,Volume\n")
	}
	base := time.Date(2021, 3, 1, 10, 0, 0, 0, time.UTC)
	for r := 0; r < s.Rows; r++ {
		f := []string{base.Add(time.Duration(r) * time.Minute).Format("20060102 15:04:05"), fmt.Sprintf("%d.5", 10+r), fmt.Sprint(100 + r)}
		want = append(want, [3]string{f[0], f[1], f[2]})
		if s.Fault != "" && r == s.FRow {
			switch s.Fault {
			case "missing-field":
				f = append(f[:s.FField], f[s.FField+1:]...)
			case "extra-field":
				f = append(f[:s.FField+1], append([]string{"999"}, f[s.FField+1:]...)...)
			case "bad-number":
				f[s.FField] = "12x"
			case "bad-time":
				f[0] = "2021-13-45 99:99"
			case "out-of-range":
				f[2] = "3000000000" // a well-formed integer that does not fit the bucket's i4 column
				want[r][2] = f[2]
			case "bare-quote":
				f[s.FField] = f[s.FField][:1] + "\"" + f[s.FField][1:]
			}
		}
		sb.WriteString(strings.Join(f, ",") + "\n")
	}
	return sb.String(), want
}

func c33Run(c *mc.Ctx, s c33Spec) {
	d := world.FreshDevice()
	w, obs := world.Start(world.Config{BackgroundSync: false})
	if !obs.OK() {
		c.Violate("startup-failed", obs.String())
		return
	}
	defer w.Close()
	key := "CSV/1Min/OHLC"
	if err := w.Create(key, []string{"Open", "Volume"}, []string{"f4", "i4"}, false); err != nil {
		c.Violate("create-failed", err.Error())
		return
	}
	text, want := c33File(s)
	ctl := "firstRowHasColumnNames: true\ntimeFormat: \"20060102 15:04:05\"\ntimeZone: \"UTC\"\n"
	if !s.Header {
		ctl = "firstRowHasColumnNames: false\ntimeFormat: \"20060102 15:04:05\"\ntimeZone: \"UTC\"\ncolumnNameMap: [Epoch, Open, Volume]\n"
	}
	d.SetLogging(false)
	d.MkdirAll("/in", 0o770)
	d.WriteFile("/in/data.csv", []byte(text), 0o600)
	d.WriteFile("/in/ctl.yaml", []byte(ctl), 0o600)
	d.SetLogging(true)
	c.Eval(fmt.Sprint(s), s.Fault != "")
	chunkCls := map[int]string{0: "load-command", 1: "chunk1", 2: "chunk-small", 3: "chunk-small", 1000: "chunk-large"}[s.Chunk]
	var lerr error
	hookMissing := false
	pan := safely(func() {
		if s.Chunk == 0 {
			cl := session.NewClient(&apiAdapter{w})
			lerr = cl.VerifLoad("\\load " + key + " /in/data.csv /in/ctl.yaml")
			if lerr != nil && strings.Contains(lerr.Error(), "export hook unavailable") {
				hookMissing = true
			}
			return
		}
		dataFD, err := vos.Open("/in/data.csv")
		if err != nil {
			lerr = err
			return
		}
		ctlFD, err := vos.Open("/in/ctl.yaml")
		if err != nil {
			lerr = err
			return
		}
		gi, err := w.GetInfo(key)
		if err != nil {
			lerr = err
			return
		}
		var rd *csv.Reader
		var cvm *loader.CSVMetadata
		rd, cvm, lerr = loader.ReadMetadata(dataFD, ctlFD, gi.DSV)
		if lerr != nil {
			return
		}
		for {
			npm, end, err := loader.CSVtoNumpyMulti(rd, *world.Key(key), cvm, s.Chunk, false)
			if err != nil {
				lerr = err
				return
			}
			if npm != nil {
				resp := &frontend.MultiServerResponse{}
				if err := w.DS.Write(nil, &frontend.MultiWriteRequest{Requests: []frontend.WriteRequest{{Data: npm}}}, resp); err != nil {
					lerr = err
					return
				}
				if len(resp.Responses) != 0 {
					lerr = fmt.Errorf("%s", resp.Responses[0].Error)
					return
				}
			}
			if end {
				return
			}
		}
	})
	if pan != "" {
		c.Violate("panic|"+s.Fault+"|"+chunkCls, fmt.Sprintf("importing %q panicked: %s", text, pan))
		c.Outcome("panic")
		return
	}
	if hookMissing {
		c.Outcome("load-command-path-unavailable") // the export hook did not fit this tree: only the loader path is judged
		c.Count("load_command_path_unavailable", 1)
		return
	}
	if lerr != nil {
		c.Outcome("error-reported")
		if s.Fault == "" {
			c.Outcome("error-on-well-formed-file") // allowed by the property's letter; visible in the evidence
		}
		return
	}
	tab, err := w.QueryAll(key)
	n := 0
	if err == nil {
		n = tab.Len()
	}
	c.Outcome(fmt.Sprintf("no-error/loaded=%d-of-%d", n, s.Rows))
	if n < s.Rows {
		where := "fault-row"
		_ = where
		c.Violate("rows-dropped|"+faultName(s.Fault)+"|"+chunkCls, fmt.Sprintf("file %q has %d data rows, the import reported success but the bucket holds %d rows", text, s.Rows, n))
		return
	}
	if err == nil && (s.Fault == "" || s.Fault == "out-of-range") {
		oi, vi, ei := tab.Col("Open"), tab.Col("Volume"), tab.Col("Epoch")
		for r := 0; r < s.Rows; r++ {
			t, _ := time.Parse("20060102 15:04:05", want[r][0])
			if tab.Rows[r][ei].(int64) != t.Unix() || fmt.Sprint(tab.Rows[r][oi]) != want[r][1] || fmt.Sprint(tab.Rows[r][vi]) != want[r][2] {
				c.Violate("wrong-value|"+faultName(s.Fault)+"|"+chunkCls, fmt.Sprintf("row %d loaded as %v, file says %v", r, tab.Rows[r], want[r]))
			}
		}
	}
	if s.Rows == 3 && s.FRow == 1 {
		c.Sample(map[string]any{"file": text, "fault": s.Fault, "chunk": s.Chunk, "loaded": n})
	}
}

func faultName(f string) string {
	if f == "" {
		return "no-fault"
	}
	return f
}
