package checks

import (
	"crypto/md5"
	"encoding/binary"
	"fmt"
	"sort"
	"strings"
	"time"

	"github.com/alpacahq/marketstore/v4/utils/io"
	"github.com/alpacahq/marketstore/v4/verif/mc"
	"github.com/alpacahq/marketstore/v4/verif/rt/vos"
	"github.com/alpacahq/marketstore/v4/verif/rt/vrt"
	"github.com/alpacahq/marketstore/v4/verif/world"
)

// C06 WAL replay tolerates arbitrary damage to the log.

type c06Spec struct {
	Base int    `json:"base"`
	Kind string `json:"kind"` // trunc | subst | insert | field | dup | swap | status
	Off  int    `json:"off"`  // byte offset (trunc/subst/insert/field) or message index (dup/swap)
}

// a base: a WAL file written by the real write path, the image it lives in, and its transactions
type c06TG struct {
	id         int64
	recOff     int // offset of the TGDATA message (id byte)
	recEnd     int
	commitEnd  int   // end of the WAL COMMITCOMPLETE record of this TG (0 = none)
	rows       []tag // rows it writes (bucket, tag)
	checkpoint bool  // covered by a completed checkpoint in the undamaged log
}

type tag struct {
	key string
	v   int32
}

type c06Base struct {
	name    string
	img     *vos.FS // image: WAL as written; primary files hold only the checkpointed TGs
	walPath string
	wal     []byte
	tgs     []c06TG
	msgs    []mc.WALMsg
	outside uint64
}

var c06Bases []*c06Base

func c06Build() []*c06Base {
	if c06Bases != nil {
		return c06Bases
	}
	type wr struct {
		key      string
		variable bool
		times    []time.Time
		names    []string
	}
	longNames := make([]string, 40)
	for i := range longNames {
		longNames[i] = fmt.Sprintf("col%02d_", i) + strings.Repeat("n", 25)
	}
	t0 := time.Date(2021, 3, 1, 10, 0, 0, 0, time.UTC)
	scripts := []struct {
		name string
		ops  []any // wr = one request (one TG); "ckpt" = checkpoint tick; []wr = one request with several buckets
	}{
		{"two fixed TGs, checkpoint, third TG", []any{wr{kF, false, []time.Time{t0}, nil}, wr{kF, false, []time.Time{t0.Add(time.Hour)}, nil}, "ckpt", wr{kF, false, []time.Time{t0.Add(2 * time.Hour)}, nil}}},
		{"fixed TG then variable TG", []any{wr{kF, false, []time.Time{t0}, nil}, wr{kV, true, []time.Time{t0.Add(10 * time.Minute), t0.Add(20 * time.Minute)}, nil}}},
		{"one TG with three commands over two buckets, then a fixed TG", []any{[]wr{{kF, false, []time.Time{t0, t0.Add(time.Hour)}, nil}, {kG, false, []time.Time{t0}, nil}}, wr{kG, false, []time.Time{t0.Add(3 * time.Hour)}, nil}}},
		{"TG with 40 columns of 32-byte names", []any{wr{kN, false, []time.Time{t0}, longNames}, wr{kF, false, []time.Time{t0}, nil}}},
	}
	for _, sc := range scripts {
		d := world.FreshDevice()
		base := d.FS().Clone()
		d.ResetLog()
		var tgRows [][]tag
		ckptAfter := -1
		next := int32(100)
		sch := vrt.Run(nil, func(s *vrt.Sched) { s.NoForcedTimers = true }, func() {
			w, obs := world.Start(world.Config{BackgroundSync: true, WALRotateInterval: 100})
			if !obs.OK() {
				panic("c06 base: " + obs.String())
			}
			vrt.Quiesce()
			for _, op := range sc.ops {
				switch o := op.(type) {
				case string:
					vrt.Fire(tickPrimaryd)
					vrt.Quiesce()
					ckptAfter = len(tgRows) - 1
				default:
					var reqs []wr
					if one, ok := o.(wr); ok {
						reqs = []wr{one}
					} else {
						reqs = o.([]wr)
					}
					csm := io.NewColumnSeriesMap()
					var rows []tag
					for _, r := range reqs {
						names := r.names
						if names == nil {
							names = []string{"V"}
						}
						cols := make([]any, len(names))
						for ci := range cols {
							v := make([]int32, len(r.times))
							for i := range v {
								if ci == 0 {
									next++
									v[i] = next
									rows = append(rows, tag{r.key, next})
								}
							}
							cols[ci] = v
						}
						if r.variable {
							csm.AddColumnSeries(*world.Key(r.key), csVar(r.times, names, cols))
						} else {
							csm.AddColumnSeries(*world.Key(r.key), csFixed(r.times, names, cols))
						}
					}
					if err := w.WriteCSM(csm, reqs[0].variable); err != nil {
						panic("c06 base write: " + err.Error())
					}
					vrt.Quiesce()
					tgRows = append(tgRows, rows)
				}
			}
		})
		if len(sch.Panics) > 0 || sch.Deadlock {
			panic(fmt.Sprint("c06 base run failed: ", sch.Panics, sch.Deadlock, sch.DeadInfo))
		}
		log := append([]vos.Op{}, d.Log()...)
		b := &c06Base{name: sc.name}
		// image: apply the log, but drop the data-area writes of the transactions after the last checkpoint
		lastSyncAll := -1
		for i, op := range log {
			if op.Kind == vos.OpSyncAll {
				lastSyncAll = i
			}
			if op.Kind == vos.OpWrite && strings.HasSuffix(op.Path, ".walfile") {
				b.walPath = op.Path
			}
		}
		img := base.Clone()
		for i := range log {
			op := &log[i]
			if op.Kind == vos.OpWrite && strings.HasSuffix(op.Path, ".bin") && op.Off >= 37024 && i > lastSyncAll {
				continue
			}
			img.Apply(op)
		}
		b.img = img
		b.wal = img.ReadAll(b.walPath)
		b.msgs = mc.DecodeWAL(b.wal)
		ti := 0
		for mi, m := range b.msgs {
			if m.Kind != "TG" {
				continue
			}
			tg := c06TG{id: m.TGID, recOff: m.Off, recEnd: m.End, rows: tgRows[ti], checkpoint: ti <= ckptAfter}
			for _, m2 := range b.msgs[mi+1:] {
				if m2.Kind == "TI" && m2.TGID == m.TGID && m2.Dest == 0 && m2.Status == 2 {
					tg.commitEnd = m2.End
					break
				}
			}
			b.tgs = append(b.tgs, tg)
			ti++
		}
		if ti != len(tgRows) {
			panic(fmt.Sprintf("c06 base %q: %d transactions decoded, %d written", sc.name, ti, len(tgRows)))
		}
		vos.Install(vos.FromFS(img))
		b.outside = outsideHash(world.Root)
		c06Bases = append(c06Bases, b)
	}
	return c06Bases
}

var c06QuickVals = func(b byte) []byte { return []byte{0, 1, 2, 0x7f, 0x80, 0xff, b ^ 1, b ^ 0x80} }
var c06FieldVals = []int64{-1, 0, 1, 6, 7, 8, 15, 16, 1 << 31, 1 << 62}

func init() {
	mc.Def(mc.Check{
		ID:    "C06",
		Level: "exploration",
		Rule: "4 WAL files written by the real write path (two fixed TGs + checkpoint + a third TG; fixed + variable TG; a 3-command TG over two buckets; a TG with 40 columns of 32-byte names), each inside an image whose primary files hold only the checkpointed transactions; " +
			"mutants: truncation at EVERY offset; substitution of EVERY byte by 8 values (thorough: all 256); insertion of 1, 2 and 8 garbage bytes at every offset; every 8-byte length/id field set to {-1,0,1,6,7,8,15,16,2^31,2^62}; duplication and adjacent swap of every message; every (FileStatus,ReplayState) pair in the header. " +
			"each mutant is restarted through the real startup path: no panic, no hang (20 s), applied set S with must <= S <= may, nothing outside the root changes. a case = (file, mutation kind, offset) with all its values; non-trivial = every mutant differs from the original",
		Assume:   []string{"UTC", "must = transactions whose TGDATA and WAL-commit records lie entirely before the first differing byte and that no checkpoint covers; may = transactions whose TGDATA record bytes occur unmodified in the mutant"},
		QuickMax: 6 * time.Minute, ThorMax: 40 * time.Minute,
	}, c06Enum, c06Run)
}

func c06Enum(c *mc.Ctx, yield func(c06Spec)) {
	for bi, b := range c06Build() {
		n := len(b.wal)
		for off := 0; off <= n; off++ {
			if off < n {
				yield(c06Spec{bi, "trunc", off})
				yield(c06Spec{bi, "subst", off})
			}
			yield(c06Spec{bi, "insert", off})
		}
		for _, m := range b.msgs {
			switch m.Kind {
			case "TG":
				yield(c06Spec{bi, "field", m.Off + 1})     // tgLen
				yield(c06Spec{bi, "field", m.Off + 9})     // tgid
				yield(c06Spec{bi, "field", m.Off + 9 + 8}) // write-set count
			case "TI":
				yield(c06Spec{bi, "field", m.Off + 1})
			case "STATUS":
				yield(c06Spec{bi, "field", m.Off + 3})
			}
		}
		for mi, m := range b.msgs {
			if m.Kind == "TG" {
				yield(c06Spec{bi, "advname", mi}) // a VALID record with adversarial contents: long column names
			}
		}
		for mi := range b.msgs {
			yield(c06Spec{bi, "dup", mi})
			if mi+1 < len(b.msgs) {
				yield(c06Spec{bi, "swap", mi})
			}
		}
		yield(c06Spec{bi, "status", 0})
	}
}

func c06Run(c *mc.Ctx, s c06Spec) {
	b := c06Build()[s.Base]
	orig := b.wal
	var mutants [][]byte
	var descs []string
	add := func(m []byte, d string) { mutants = append(mutants, m); descs = append(descs, d) }
	cat := func(parts ...[]byte) []byte {
		var o []byte
		for _, p := range parts {
			o = append(o, p...)
		}
		return o
	}
	switch s.Kind {
	case "trunc":
		add(append([]byte{}, orig[:s.Off]...), fmt.Sprintf("truncated to %d of %d bytes", s.Off, len(orig)))
	case "subst":
		vals := c06QuickVals(orig[s.Off])
		if c.Thorough() {
			vals = make([]byte, 256)
			for i := range vals {
				vals[i] = byte(i)
			}
		}
		seen := map[byte]bool{orig[s.Off]: true}
		for _, v := range vals {
			if seen[v] {
				continue
			}
			seen[v] = true
			m := append([]byte{}, orig...)
			m[s.Off] = v
			add(m, fmt.Sprintf("byte %d: %#02x -> %#02x", s.Off, orig[s.Off], v))
		}
	case "insert":
		for _, g := range [][]byte{{0}, {1}, {2}, {0xff}, {0, 0}, {1, 0xff}, {0, 1, 2, 3, 4, 5, 6, 7}, {0xff, 0xff, 0xff, 0xff, 0xff, 0xff, 0xff, 0x7f}} {
			add(cat(orig[:s.Off], g, orig[s.Off:]), fmt.Sprintf("%d garbage byte(s) %x inserted at %d", len(g), g, s.Off))
		}
	case "field":
		if s.Off+8 > len(orig) {
			return
		}
		cur := int64(binary.LittleEndian.Uint64(orig[s.Off:]))
		for _, v := range c06FieldVals {
			if v == cur {
				continue
			}
			m := append([]byte{}, orig...)
			binary.LittleEndian.PutUint64(m[s.Off:], uint64(v))
			add(m, fmt.Sprintf("8-byte field at %d: %d -> %d", s.Off, cur, v))
		}
	case "advname":
		m := b.msgs[s.Off]
		for _, k := range []int{33, 127, 128, 200, 255} {
			if nb := c06RenameFirstColumn(m.Body, k); nb != nil {
				rec := []byte{0}
				rec = binary.LittleEndian.AppendUint64(rec, uint64(len(nb)))
				h := md5.New()
				h.Write(rec[1:9])
				h.Write(nb)
				rec = append(append(rec, nb...), h.Sum(nil)...)
				add(cat(orig[:m.Off], rec, orig[m.End:]), fmt.Sprintf("valid record of transaction at %d re-encoded with a %d-byte column name (length and checksum correct)", m.Off, k))
			}
		}
	case "dup":
		m := b.msgs[s.Off]
		add(cat(orig[:m.End], orig[m.Off:m.End], orig[m.End:]), fmt.Sprintf("message %d (%s at %d) duplicated", s.Off, m.Kind, m.Off))
	case "swap":
		m1, m2 := b.msgs[s.Off], b.msgs[s.Off+1]
		add(cat(orig[:m1.Off], orig[m2.Off:m2.End], orig[m1.Off:m1.End], orig[m2.End:]), fmt.Sprintf("messages %d (%s) and %d (%s) swapped", s.Off, m1.Kind, s.Off+1, m2.Kind))
	case "status":
		for fs := 0; fs <= 3; fs++ {
			for rs := 0; rs <= 4; rs++ {
				if byte(fs) == orig[1] && byte(rs) == orig[2] {
					continue
				}
				m := append([]byte{}, orig...)
				m[1], m[2] = byte(fs), byte(rs)
				add(m, fmt.Sprintf("header FileStatus=%d ReplayState=%d", fs, rs))
			}
		}
	}
	for i, m := range mutants {
		c06Judge(c, b, s, m, descs[i])
	}
	c.Eval(fmt.Sprint(s), len(mutants) > 0)
	if s.Off%97 == 0 && len(descs) > 0 {
		c.Sample(map[string]any{"base": b.name, "kind": s.Kind, "mutants": len(mutants), "first": descs[0]})
	}
}

// c06RenameFirstColumn re-encodes a serialized transaction group with the first column name of its first
// write set replaced by a k-byte name (nil when the body does not parse).
func c06RenameFirstColumn(body []byte, k int) (out []byte) {
	defer func() {
		if recover() != nil {
			out = nil
		}
	}()
	cur := 16
	if binary.LittleEndian.Uint64(body[8:]) == 0 {
		return nil
	}
	cur++ // record type
	fpl := int(binary.LittleEndian.Uint16(body[cur:]))
	cur += 2 + fpl
	dl := int(binary.LittleEndian.Uint32(body[cur:]))
	cur += 4 + 4 + 8 + 8 + dl
	ns := int(body[cur])
	if ns == 0 {
		return nil
	}
	cur++
	l := int(body[cur])
	name := strings.Repeat("N", k)
	out = append(out, body[:cur]...)
	out = append(out, byte(k))
	out = append(out, name...)
	out = append(out, body[cur+1+l:]...)
	return out
}

func c06FieldClass(b *c06Base, d int) string {
	for _, m := range b.msgs {
		if d >= m.Off && d < m.End {
			switch m.Kind {
			case "STATUS":
				return "status"
			case "TI":
				return "txninfo"
			case "TG":
				switch {
				case d == m.Off:
					return "mid"
				case d < m.Off+9:
					return "tglen"
				case d < m.Off+17:
					return "tgid"
				case d < m.Off+25:
					return "wtcount"
				case d >= m.End-16:
					return "checksum"
				}
				return "tg-body"
			}
		}
	}
	return "eof"
}

func c06Judge(c *mc.Ctx, b *c06Base, s c06Spec, mutant []byte, desc string) {
	c.Count("mutants", 1)
	// first differing byte
	d := 0
	for d < len(mutant) && d < len(b.wal) && mutant[d] == b.wal[d] {
		d++
	}
	img := b.img.Clone()
	dev := vos.FromFS(img)
	vos.Install(dev)
	f, err := dev.OpenFile(b.walPath, vos.O_RDWR|vos.O_TRUNC, 0o600)
	if err != nil {
		c.Violate("harness", err.Error())
		return
	}
	f.Write(mutant)
	f.Close()
	fc := c06FieldClass(b, d)
	where := fmt.Sprintf("WAL %q, %s (first differing byte %d, in %s)", b.name, desc, d, fc)
	type result struct {
		obs  world.StartObs
		tabs map[string]*bucketState
	}
	done := make(chan result, 1)
	go func() {
		var r result
		w, obs := world.Start(world.Config{BackgroundSync: false})
		r.obs = obs
		if obs.OK() {
			r.tabs = map[string]*bucketState{}
			for _, k := range crashKeys {
				bs := &bucketState{fixed: map[int64]int32{}}
				_ = safely(func() {
					tab, err := w.QueryAll(k)
					if err != nil {
						return
					}
					vi, ei := tab.Col("V"), tab.Col("Epoch")
					if vi < 0 {
						vi = tab.Col("col00_" + strings.Repeat("n", 25))
					}
					for _, row := range tab.Rows {
						if vi >= 0 && ei >= 0 {
							if t, ok := row[vi].(int32); ok {
								bs.recs = append(bs.recs, t)
							}
						}
					}
				})
				r.tabs[k] = bs
			}
			w.Close()
		}
		done <- r
	}()
	var r result
	select {
	case r = <-done:
	case <-time.After(20 * time.Second):
		c.Violate("hang|"+s.Kind+"|"+fc, where+": startup replay did not finish within 20 s")
		c.Outcome("hang")
		c.FinishNow()
		return
	}
	if !r.obs.OK() {
		c.Violate("startup-failed|"+failingCall(r.obs.String())+"|"+s.Kind+"|"+fc, where+": "+r.obs.String())
		c.Outcome("startup-failed")
		return
	}
	if outsideHash(world.Root) != b.outside {
		c.Violate("outside-write|"+s.Kind+"|"+fc, where+": something outside the data root changed")
	}
	// which transactions are visible?
	present := func(tg c06TG) (all, any bool) {
		all = true
		for _, row := range tg.rows {
			found := false
			for _, t := range r.tabs[row.key].recs {
				if t == row.v {
					found = true
				}
			}
			if found {
				any = true
			} else {
				all = false
			}
		}
		return
	}
	var applied []string
	for ti, tg := range b.tgs {
		all, any := present(tg)
		rec := string(b.wal[tg.recOff:tg.recEnd])
		intact := strings.Contains(string(mutant), rec)
		must := !tg.checkpoint && tg.recEnd <= d && tg.commitEnd > 0 && tg.commitEnd <= d
		if s.Kind == "advname" {
			// every record of this mutant is valid (correct length and checksum): all committed transactions must be applied
			intact, must = true, !tg.checkpoint && tg.commitEnd > 0
		}
		if tg.checkpoint {
			// already in the primary files: must stay visible whatever the log says
			if !all {
				c.Violate("checkpointed-data-lost|"+s.Kind+"|"+fc, fmt.Sprintf("%s: rows of checkpointed transaction %d are gone", where, ti))
			}
			continue
		}
		if any {
			applied = append(applied, fmt.Sprint(ti))
		}
		switch {
		case any && !all:
			c.Violate("partially-applied|"+s.Kind+"|"+fc, fmt.Sprintf("%s: transaction %d applied partially", where, ti))
		case any && !intact:
			c.Violate("damaged-applied|"+s.Kind+"|"+fc, fmt.Sprintf("%s: transaction %d was applied although its record bytes are damaged", where, ti))
		case !any && must:
			c.Violate("intact-skipped|"+s.Kind+"|"+fc, fmt.Sprintf("%s: transaction %d (record [%d,%d), commit ends %d) lies intact before the damage but was not applied", where, ti, tg.recOff, tg.recEnd, tg.commitEnd))
		}
	}
	// no rows that no transaction holds
	known := map[int32]bool{}
	for _, tg := range b.tgs {
		for _, row := range tg.rows {
			known[row.v] = true
		}
	}
	for _, k := range crashKeys {
		for _, t := range r.tabs[k].recs {
			if !known[t] {
				c.Violate("phantom-row|"+s.Kind+"|"+fc, fmt.Sprintf("%s: bucket %s holds value %d that no transaction wrote", where, k, t))
			}
		}
	}
	sort.Strings(applied)
	c.Outcome("applied=" + strings.Join(applied, ","))
}
