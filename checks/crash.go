package checks

import (
	"fmt"
	"sort"
	"strings"
	"time"

	"github.com/alpacahq/marketstore/v4/utils/io"
	"github.com/alpacahq/marketstore/v4/verif/mc"
	"github.com/alpacahq/marketstore/v4/verif/rt/vos"
	"github.com/alpacahq/marketstore/v4/verif/rt/vrt"
	"github.com/alpacahq/marketstore/v4/verif/world"
)

// crashmc: run a write history on the real write path (real SyncWAL loop, scripted scheduler) over
// the vos device, then enumerate every crash image of the device log (process crash: every prefix;
// power loss: every prefix x loss/tear pattern of the un-synced data writes), restart the server
// through the real startup path on each distinct image and judge the recovered state.

// ---- history alphabet ----

const (
	hWF = iota
	hWFagain
	hWFyear
	hWV
	hWVagain
	hWV2
	hWM
	hNewB
	hTickWAL
	hTickPrimary
	hDestroyG // destroy bucket G (written by wM); appended last: committed replay files number the operations
	hNumOps
)

var hNames = []string{"wF", "wF'", "wFy", "wV", "wV'", "wV2", "wM", "newB", "tickWAL", "tickPrimary", "destroyG"}

const (
	// 1H buckets: a year file has 8760 slots, so the all-time queries of every recovery stay cheap
	kF = "F/1H/B"
	kV = "V/1H/T"
	kG = "G/1H/B"
	kN = "N/1H/B"
)

var crashKeys = []string{kF, kV, kG, kN}

type crashSpec struct {
	Hist   []int `json:"hist"`
	Rotate int   `json:"rotate"` // WALRotateInterval
}

func (s crashSpec) String() string {
	var l []string
	for _, o := range s.Hist {
		l = append(l, hNames[o])
	}
	return fmt.Sprintf("[%s] rotate=%d", strings.Join(l, " "), s.Rotate)
}

// a logical write of the history (one bucket of one request)
type hWrite struct {
	op       int // index in the history
	key      string
	variable bool
	times    []time.Time
	tags     []int32
	destroy  bool // not a write: the bucket is destroyed
}

var (
	tS1 = time.Date(2021, 3, 1, 10, 0, 0, 0, time.UTC)
	tS2 = time.Date(2021, 3, 1, 11, 0, 0, 0, time.UTC)
	tY2 = time.Date(2022, 3, 1, 10, 0, 0, 0, time.UTC)
	tV1 = time.Date(2021, 3, 1, 11, 10, 0, 0, time.UTC)
	tV2 = time.Date(2021, 3, 1, 13, 5, 0, 0, time.UTC)
)

// writesOf returns the bucket writes of history operation i (nil for ticks).
func writesOf(i, op int) []hWrite {
	tag := func(r int) int32 { return int32((i+1)*100 + r) }
	switch op {
	case hWF, hWFagain:
		return []hWrite{{i, kF, false, []time.Time{tS1}, []int32{tag(1)}, false}}
	case hWFyear:
		return []hWrite{{i, kF, false, []time.Time{tY2}, []int32{tag(1)}, false}}
	case hWV:
		return []hWrite{{i, kV, true, []time.Time{tV1, tV1.Add(20 * time.Minute)}, []int32{tag(1), tag(2)}, false}}
	case hWVagain:
		return []hWrite{{i, kV, true, []time.Time{tV1.Add(30 * time.Minute)}, []int32{tag(1)}, false}}
	case hWV2:
		return []hWrite{{i, kV, true, []time.Time{tV2}, []int32{tag(1)}, false}}
	case hWM:
		return []hWrite{{i, kF, false, []time.Time{tS2}, []int32{tag(1)}, false}, {i, kG, false, []time.Time{tS1}, []int32{tag(2)}, false}}
	case hNewB:
		return []hWrite{{i, kN, false, []time.Time{tS1}, []int32{tag(1)}, false}}
	case hDestroyG:
		return []hWrite{{op: i, key: kG, destroy: true}}
	}
	return nil
}

// ---- running a history ----

type histRun struct {
	log     []vos.Op
	base    *vos.FS
	failed  string // non-empty: the history itself misbehaved (panic / write error on the healthy run)
	walPath string
}

const (
	tickWALd     = 500 * time.Millisecond
	tickPrimaryd = 5 * time.Minute
	tickCheckd   = 5 * time.Millisecond
)

func runHistory(s crashSpec) *histRun {
	d := world.FreshDevice()
	hr := &histRun{base: d.FS().Clone()}
	d.ResetLog()
	sch := vrt.Run(nil, func(s *vrt.Sched) { s.NoForcedTimers = true }, func() {
		w, obs := world.Start(world.Config{BackgroundSync: true, WALRotateInterval: s.Rotate})
		if !obs.OK() {
			hr.failed = "startup: " + obs.String()
			return
		}
		vrt.Quiesce()
		d.Mark("started", "")
		for i, op := range s.Hist {
			d.Mark("op-begin", fmt.Sprint(i))
			switch op {
			case hTickWAL:
				vrt.Fire(tickWALd)
				vrt.Quiesce()
			case hTickPrimary:
				vrt.Fire(tickPrimaryd)
				vrt.Quiesce()
			case hDestroyG:
				d.Mark("issue", fmt.Sprint(i))
				d.Mark("destroying", kG)
				_ = w.Destroy(kG) // an error (the bucket does not exist) makes this a no-op
				d.Mark("ack", fmt.Sprint(i))
				vrt.Quiesce()
			default:
				ws := writesOf(i, op)
				if op == hNewB {
					if err := w.Create(kN, []string{"V"}, []string{"i4"}, false); err == nil {
						d.Mark("created", kN)
					}
				}
				csm := io.NewColumnSeriesMap()
				for _, hw := range ws {
					if hw.variable {
						csm.AddColumnSeries(*world.Key(hw.key), csVar(hw.times, []string{"V"}, []any{hw.tags}))
					} else {
						csm.AddColumnSeries(*world.Key(hw.key), csFixed(hw.times, []string{"V"}, []any{hw.tags}))
					}
				}
				d.Mark("issue", fmt.Sprint(i))
				err := w.WriteCSM(csm, ws[0].variable)
				if err != nil {
					hr.failed = fmt.Sprintf("write %d (%s) failed on the healthy run: %v", i, hNames[op], err)
					return
				}
				d.Mark("ack", fmt.Sprint(i))
				for _, hw := range ws {
					d.Mark("created", hw.key)
				}
				vrt.Quiesce()
			}
			d.Mark("op-end", fmt.Sprint(i))
		}
	})
	if len(sch.Panics) > 0 {
		hr.failed = "panic on the healthy run: " + sch.Panics[0].Value + " @ " + sch.Panics[0].Stack
	}
	if sch.Deadlock || sch.Livelock {
		hr.failed = fmt.Sprintf("healthy run did not complete (deadlock=%v livelock=%v steps=%d): %s", sch.Deadlock, sch.Livelock, sch.Steps, sch.DeadInfo)
	}
	hr.log = append([]vos.Op{}, d.Log()...)
	return hr
}

// ---- reference state at a crash point ----

type crashPoint struct {
	acked    []hWrite // acknowledged bucket writes, in order
	inflight []hWrite // bucket writes of the request issued but not acknowledged (<= 1 request)
	created  map[string]bool
	phase    string
	ckptOp   int // index of the last history operation that is a COMPLETED checkpoint tick before the crash (-1: none)
}

// writeStatus classifies the write that produced a payload tag, as of the crash point.
func (cp crashPoint) writeStatus(tag int32) string {
	op := int(tag)/100 - 1
	for _, w := range cp.inflight {
		if w.op == op {
			return "in-flight"
		}
	}
	if op < cp.ckptOp {
		return "checkpointed"
	}
	return "acked-not-checkpointed"
}

func pointAt(s crashSpec, log []vos.Op, k int) crashPoint {
	cp := crashPoint{created: map[string]bool{}, ckptOp: -1}
	issued, acked := -1, -1
	curOp := -1
	var sinceBegin []vos.Op
	for _, op := range log[:k] {
		if op.Kind == vos.OpMark {
			var n int
			fmt.Sscan(op.Path2, &n)
			switch op.Path {
			case "issue":
				issued = n
			case "ack":
				acked = n
			case "created":
				cp.created[op.Path2] = true
			case "destroying":
				cp.created[op.Path2] = false // from the moment its destruction is requested a bucket need not be queryable
			case "op-begin":
				curOp = n
				sinceBegin = nil
			case "op-end":
				if s.Hist[n] == hTickPrimary {
					cp.ckptOp = n
				}
				curOp = -1
			}
			continue
		}
		sinceBegin = append(sinceBegin, op)
	}
	for i, op := range s.Hist {
		ws := writesOf(i, op)
		if ws == nil {
			continue
		}
		if i <= acked {
			cp.acked = append(cp.acked, ws...)
		} else if i == issued {
			cp.inflight = ws
		}
	}
	// phase: which operation is running and how far its device work got
	switch {
	case curOp < 0:
		cp.phase = "idle"
	default:
		name := map[int]string{hWF: "fixed-write", hWFagain: "fixed-write", hWFyear: "fixed-write-new-year", hWV: "variable-write", hWVagain: "variable-continuation-write",
			hWV2: "variable-write", hWM: "two-bucket-write", hNewB: "create-bucket+write", hTickWAL: "wal-tick", hTickPrimary: "checkpoint", hDestroyG: "destroy-bucket"}[s.Hist[curOp]]
		var walW, walSync, prim, meta, trunc, syncall int
		for _, op := range sinceBegin {
			isWAL := strings.HasSuffix(op.Path, ".walfile")
			switch {
			case op.Kind == vos.OpWrite && isWAL:
				walW++
			case op.Kind == vos.OpFsync && isWAL:
				walSync++
			case op.Kind == vos.OpWrite && strings.HasSuffix(op.Path, ".bin"):
				prim++
			case op.Kind == vos.OpTruncate && isWAL:
				trunc++
			case op.Kind == vos.OpSyncAll:
				syncall++
			case op.Kind == vos.OpCreate || op.Kind == vos.OpMkdir || op.Kind == vos.OpTruncate:
				meta++
			}
		}
		sub := "start"
		switch {
		case trunc > 0:
			sub = "after-wal-truncate"
		case syncall > 0:
			sub = "after-syncall"
		case prim > 0 && acked >= curOp:
			sub = "primary-done"
		case prim > 0 && walSync > 0:
			sub = "primary-partial"
		case walSync > 0:
			sub = "wal-synced"
		case walW > 0:
			sub = "wal-unsynced"
		case meta > 0:
			sub = "during-create"
		}
		cp.phase = name + ":" + sub
	}
	return cp
}

// expected table states: apply(acked) and apply(acked + inflight)
type bucketState struct {
	fixed map[int64]int32 // epoch -> tag
	recs  []int32         // variable: sorted tags (multiset)
}

func applyWrites(ws []hWrite) map[string]*bucketState {
	m := map[string]*bucketState{}
	for _, w := range ws {
		if w.destroy {
			delete(m, w.key)
			continue
		}
		b := m[w.key]
		if b == nil {
			b = &bucketState{fixed: map[int64]int32{}}
			m[w.key] = b
		}
		for i, t := range w.times {
			if w.variable {
				b.recs = append(b.recs, w.tags[i])
			} else {
				b.fixed[t.Unix()] = w.tags[i]
			}
		}
	}
	for _, b := range m {
		sort.Slice(b.recs, func(i, j int) bool { return b.recs[i] < b.recs[j] })
	}
	return m
}

func (b *bucketState) String() string {
	if b == nil {
		return "{}"
	}
	var ks []int64
	for k := range b.fixed {
		ks = append(ks, k)
	}
	sort.Slice(ks, func(i, j int) bool { return ks[i] < ks[j] })
	var sb strings.Builder
	for _, k := range ks {
		fmt.Fprintf(&sb, "%s=%d ", time.Unix(k, 0).UTC().Format("2006-01-02T15"), b.fixed[k])
	}
	if len(b.recs) > 0 {
		fmt.Fprintf(&sb, "records%v", b.recs)
	}
	return sb.String()
}

// ---- recovery ----

type recovered struct {
	start   world.StartObs
	tables  map[string]*bucketState
	qerr    map[string]string
	second  world.StartObs // second restart on the post-recovery image
	second2 string         // difference seen by the second restart ("" = same)
}

// recover restarts the server on image and reads every bucket.
func recoverImage(img *vos.FS, twice bool) *recovered {
	r := &recovered{tables: map[string]*bucketState{}, qerr: map[string]string{}}
	d := vos.FromFS(img)
	vos.Install(d)
	w, obs := world.Start(world.Config{BackgroundSync: false})
	r.start = obs
	if !obs.OK() {
		return r
	}
	read := func(w *world.World) (map[string]*bucketState, map[string]string) {
		tabs := map[string]*bucketState{}
		errs := map[string]string{}
		for _, k := range crashKeys {
			var tab *world.Table
			var err error
			if p := safely(func() { tab, err = w.QueryAll(k) }); p != "" {
				errs[k] = "panic: " + p
				continue
			}
			if err != nil {
				errs[k] = err.Error()
				continue
			}
			b := &bucketState{fixed: map[int64]int32{}}
			ei, vi := tab.Col("Epoch"), tab.Col("V")
			variable := tab.Col("Nanoseconds") >= 0
			for _, row := range tab.Rows {
				if vi < 0 || ei < 0 {
					continue
				}
				tag, _ := row[vi].(int32)
				if variable {
					b.recs = append(b.recs, tag)
				} else {
					b.fixed[row[ei].(int64)] = tag
				}
			}
			sort.Slice(b.recs, func(i, j int) bool { return b.recs[i] < b.recs[j] })
			tabs[k] = b
		}
		return tabs, errs
	}
	r.tables, r.qerr = read(w)
	w.Close()
	if twice {
		w2, obs2 := world.Start(world.Config{BackgroundSync: false})
		r.second = obs2
		if obs2.OK() {
			t2, e2 := read(w2)
			for _, k := range crashKeys {
				if r.tables[k].String() != t2[k].String() || (r.qerr[k] == "") != (e2[k] == "") {
					r.second2 = fmt.Sprintf("bucket %s: first restart %s %s, second restart %s %s", k, r.tables[k], r.qerr[k], t2[k], e2[k])
				}
			}
			w2.Close()
		}
	}
	return r
}

// fsHash is a content hash of the tree under /data (zero pages equal holes).
func fsHash(f *vos.FS) uint64 {
	h := uint64(14695981039346656037)
	mix := func(b []byte) {
		for _, c := range b {
			h ^= uint64(c)
			h *= 1099511628211
		}
	}
	f.Walk(world.Outer, func(p string, dir bool, size int64, read func() []byte) {
		mix([]byte(p))
		if dir {
			mix([]byte{1})
			return
		}
		mix([]byte(fmt.Sprint(size)))
		idx, _ := f.PagesOf(p)
		for _, pi := range idx {
			pg := f.Page(p, pi)
			zero := true
			for _, c := range pg {
				if c != 0 {
					zero = false
					break
				}
			}
			if zero {
				continue
			}
			mix([]byte(fmt.Sprint(pi)))
			mix(pg)
		}
	})
	return h
}

// ---- judging ----

type verdicts struct {
	c01, c02, c03 []mc.Violation // symptom signature + description (Spec filled by the caller)
}

func fmtState(m map[string]*bucketState) string {
	var sb strings.Builder
	for _, k := range crashKeys {
		if b, ok := m[k]; ok {
			fmt.Fprintf(&sb, "%s{%s} ", k, b)
		}
	}
	return sb.String()
}

// judge compares the recovered state with the reference at the crash point.
func judge(cp crashPoint, r *recovered, where string) (v verdicts) {
	add := func(l *[]mc.Violation, sig, what string) {
		if l == &v.c03 {
			if i := strings.Index(sig, "|lost:"); i >= 0 {
				sig = sig[:i] // restart failures are classified by the failing call; the lost objects stay in the description
			}
		}
		*l = append(*l, mc.Violation{Sig: sig, What: what})
	}
	if !r.start.OK() {
		add(&v.c03, "startup-failed|"+failingCall(r.start.String())+"|"+cp.phase, fmt.Sprintf("%s: restart failed: %s", where, r.start))
		if len(cp.acked) > 0 {
			// C01/C04: a server that does not come up returns none of the acknowledged data
			ph := cp.phase
			if i := strings.Index(ph, "|lost:"); i >= 0 {
				ph = ph[:i]
			}
			add(&v.c01, "unavailable|startup-failed|"+failingCall(r.start.String())+"|"+ph, fmt.Sprintf("%s: restart failed (%s): %d acknowledged write(s) are not served", where, r.start, len(cp.acked)))
		}
		return
	}
	if !r.second.OK() {
		add(&v.c03, "second-startup-failed|"+failingCall(r.second.String())+"|"+cp.phase, fmt.Sprintf("%s: the restart succeeded but the next restart failed: %s", where, r.second))
	}
	lo := applyWrites(cp.acked)
	hi := applyWrites(append(append([]hWrite{}, cp.acked...), cp.inflight...))
	inflightKeys := map[string]bool{}
	destroying := map[string]bool{}
	for _, w := range cp.inflight {
		inflightKeys[w.key] = true
		if w.destroy {
			destroying[w.key] = true
		}
	}
	matchLo, matchHi := true, true
	for _, k := range crashKeys {
		got := r.tables[k]
		if e := r.qerr[k]; e != "" {
			if cp.created[k] {
				add(&v.c03, "query-error|"+failingCall(e)+"|"+cp.phase, fmt.Sprintf("%s: bucket %s existed before the crash but its query fails after restart: %s", where, k, e))
			}
			got = &bucketState{fixed: map[int64]int32{}}
			if lo[k] != nil && !cp.created[k] {
				// acknowledged data in a bucket whose creating call had returned is covered above; nothing else to say
			}
		}
		if destroying[k] {
			continue // the bucket is being destroyed: with its rows, without them and not queryable are all acceptable
		}
		rt := "fixed"
		if k == kV {
			rt = "variable"
		}
		l, h := lo[k], hi[k]
		if l == nil {
			l = &bucketState{fixed: map[int64]int32{}}
		}
		if h == nil {
			h = &bucketState{fixed: map[int64]int32{}}
		}
		if got.String() != l.String() {
			matchLo = false
		}
		if got.String() != h.String() {
			matchHi = false
		}
		// C01: acknowledged data present
		for e, tag := range l.fixed {
			g, ok := got.fixed[e]
			switch {
			case !ok:
				add(&v.c01, "lost-fixed|"+cp.phase, fmt.Sprintf("%s: acknowledged row %s=%d of %s is gone after restart (bucket holds %s)", where, time.Unix(e, 0).UTC().Format("2006-01-02T15"), tag, k, got))
			case g != tag && g != h.fixed[e]:
				add(&v.c01, "stale-value|"+cp.phase, fmt.Sprintf("%s: interval %s of %s holds %d; last acknowledged write was %d", where, time.Unix(e, 0).UTC().Format("2006-01-02T15"), k, g, tag))
			}
		}
		cnt := func(l []int32) map[int32]int {
			m := map[int32]int{}
			for _, t := range l {
				m[t]++
			}
			return m
		}
		gc, lc, hc := cnt(got.recs), cnt(l.recs), cnt(h.recs)
		for tag, n := range lc {
			if gc[tag] < n {
				add(&v.c01, "lost-variable|"+cp.phase, fmt.Sprintf("%s: acknowledged record %d of %s written %d time(s), %d after restart", where, tag, k, n, gc[tag]))
			}
		}
		// C02: nothing that was not issued, right multiplicity. A value written before the bucket was destroyed and
		// re-created WAS issued (the property speaks of issued write requests, not of bucket incarnations): replay
		// bringing it back is not judged here
		issuedBefore := map[int64]map[int32]bool{}
		for _, w := range append(append([]hWrite{}, cp.acked...), cp.inflight...) {
			if w.key != k || w.destroy || w.variable {
				continue
			}
			for i, t := range w.times {
				if issuedBefore[t.Unix()] == nil {
					issuedBefore[t.Unix()] = map[int32]bool{}
				}
				issuedBefore[t.Unix()][w.tags[i]] = true
			}
		}
		for e, g := range got.fixed {
			if g != l.fixed[e] && g != h.fixed[e] && !issuedBefore[e][g] {
				if _, ok := h.fixed[e]; !ok {
					add(&v.c02, "phantom|"+rt+"|"+cp.phase, fmt.Sprintf("%s: %s holds a row at %s (value %d) that no issued write put there", where, k, time.Unix(e, 0).UTC().Format("2006-01-02T15"), g))
				} else if _, ok := l.fixed[e]; ok || true {
					add(&v.c02, "phantom|"+rt+"|"+cp.phase, fmt.Sprintf("%s: %s interval %s holds %d, issued values are %d / %d", where, k, time.Unix(e, 0).UTC().Format("2006-01-02T15"), g, l.fixed[e], h.fixed[e]))
				}
			}
		}
		for tag, n := range gc {
			want := hc[tag]
			switch {
			case want == 0:
				add(&v.c02, "phantom|"+rt+"|"+cp.phase, fmt.Sprintf("%s: %s holds record %d that no issued write put there", where, k, tag))
			case n > want:
				add(&v.c02, "duplicate|"+rt+"|write:"+cp.writeStatus(tag), fmt.Sprintf("%s: record %d of %s written %d time(s), present %d times after restart", where, tag, k, want, n))
			case lc[tag] == 0 && n != 0 && n != want:
				add(&v.c02, "partial-record-set|"+rt+"|"+cp.phase, fmt.Sprintf("%s: in-flight record %d of %s present %d of %d times", where, tag, k, n, want))
			}
		}
	}
	// all-or-nothing of the in-flight request (over all its buckets)
	// judged on the in-flight request's own rows: all of them visible or none
	_, _ = matchLo, matchHi
	if len(cp.inflight) > 0 && len(v.c01) == 0 && len(v.c02) == 0 && len(v.c03) == 0 {
		total, present := 0, 0
		for _, w := range cp.inflight {
			if w.destroy {
				continue
			}
			got := r.tables[w.key]
			for i, t := range w.times {
				total++
				if got == nil {
					continue
				}
				if w.variable {
					for _, tg := range got.recs {
						if tg == w.tags[i] {
							present++
							break
						}
					}
				} else if got.fixed[t.Unix()] == w.tags[i] {
					present++
				}
			}
		}
		if present != 0 && present != total {
			add(&v.c02, "partial-transaction|"+cp.phase, fmt.Sprintf("%s: %d of the %d rows of the in-flight request are visible after recovery: recovered %s; without the request %s, with it %s", where, present, total, fmtState(r.tables), fmtState(lo), fmtState(hi)))
		}
	}
	if r.second2 != "" {
		add(&v.c02, "second-restart-differs|"+cp.phase, where+": "+r.second2)
	}
	return v
}

// failingCall extracts a stable name of the failing call from a panic/error text.
func failingCall(s string) string {
	if strings.Contains(s, "not in catalog") {
		return "category-not-in-catalog"
	}
	if strings.Contains(s, "TakeOver") {
		return "wal-takeover-refused"
	}
	for _, key := range []string{"snappy", "Record Length", "readHeader", "ParseTGData", "DSVFromBytes", "Replay", "CleanupOldWALFiles", "NewDirectory", "no files returned", "makeslice", "slice bounds", "index out of range", "exit("} {
		if strings.Contains(s, key) {
			return strings.ReplaceAll(key, " ", "-")
		}
	}
	return errClass(fmt.Errorf("%s", truncStr(s, 60)))
}

// ---- enumeration helpers ----

func crashHistories(c *mc.Ctx, maxLen int, yield func(crashSpec)) {
	var rec func(cur []int)
	rec = func(cur []int) {
		if len(cur) > 0 {
			for _, rot := range []int{1, 2} {
				hasPrimary := false
				for _, o := range cur {
					if o == hTickPrimary {
						hasPrimary = true
					}
				}
				if rot == 2 && !hasPrimary {
					continue // the rotation interval only matters when a checkpoint tick is in the history
				}
				yield(crashSpec{append([]int{}, cur...), rot})
			}
		}
		if len(cur) == maxLen {
			return
		}
		for o := 0; o < hNumOps; o++ {
			if len(cur) == 0 && (o == hTickWAL || o == hTickPrimary || o == hDestroyG) {
				continue // a tick with nothing written is a no-op
			}
			rec(append(cur, o))
		}
	}
	rec(nil)
	// curated longer histories: repeated intervals, several buckets and years, rotation twice
	for _, h := range [][]int{
		{hWF, hWFagain, hTickPrimary, hWFagain, hWFyear},
		{hWV, hWVagain, hWV2, hTickPrimary, hWVagain},
		{hWM, hWF, hTickPrimary, hTickPrimary, hWM},
		{hNewB, hWV, hTickWAL, hWFyear, hTickPrimary, hWV},
		{hWV, hTickPrimary, hWVagain, hTickPrimary, hWV2, hWF},
		{hWF, hWV, hWM, hNewB},
		{hWFyear, hWF, hWFagain, hWM, hTickPrimary, hWFyear},
		{hWV, hWV, hWVagain, hWVagain},
		{hWM, hWF, hDestroyG, hWFagain},
		{hWM, hTickPrimary, hWM, hDestroyG, hWV, hTickPrimary},
	} {
		yield(crashSpec{h, 1})
		yield(crashSpec{h, 2})
	}
}
