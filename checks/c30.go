package checks

import (
	"fmt"
	"time"

	"github.com/alpacahq/marketstore/v4/utils"
	"github.com/alpacahq/marketstore/v4/utils/io"
	"github.com/alpacahq/marketstore/v4/verif/mc"
)

// C30 Interval indexing is a bijection onto a year's slots.

type c30Spec struct {
	Zone  string `json:"zone"`
	Year  int    `json:"year"`
	TF    string `json:"tf"`
	DayLo int    `json:"day_lo"` // day-of-year range [lo,hi) of slot starts (0-based)
	DayHi int    `json:"day_hi"`
}

var c30Zones = []string{"UTC", "America/New_York", "Europe/London", "Asia/Tokyo", "Australia/Lord_Howe"}
var c30Years = []int{2019, 2020, 2021, 2024}

func init() {
	mc.Def(mc.Check{
		ID:    "C30",
		Level: "exploration",
		Rule: "zones {UTC, America/New_York, Europe/London, Asia/Tokyo, Australia/Lord_Howe} x years {2019,2020,2021,2024} x every timeframe x every slot of the year " +
			"(quick: 1Sec/10Sec/30Sec restricted to the days around Jan 1, the DST switches, Feb 28-Mar 1 and Dec 31); for each slot the instants start, start+1ns and end-1ns are mapped to an index, " +
			"the index back to a time and to a file offset. each (zone, year, timeframe, slot) is a distinct non-trivial case",
		Assume:   []string{"zones with a permanent offset change inside a year are outside the alphabet", "process-local zone of the sandbox (used by FileSize) is UTC", "record sizes {24 (3 columns), 12}"},
		QuickMax: 5 * time.Minute, ThorMax: 40 * time.Minute,
	}, c30Enum, c30Run)
}

var c30OtherZone = time.FixedZone("UTC+13", 13*3600)

func c30Special(loc *time.Location, year int) map[int]bool {
	// days (0-based yearday) around Jan 1, DST switches, Feb 28-Mar 1, Dec 31
	m := map[int]bool{0: true, 1: true}
	y0 := time.Date(year, 1, 1, 0, 0, 0, 0, loc)
	nd := time.Date(year+1, 1, 1, 0, 0, 0, 0, loc).YearDay()
	_ = nd
	days := time.Date(year, 12, 31, 0, 0, 0, 0, loc).YearDay()
	m[days-1], m[days-2] = true, true
	for _, d := range []time.Time{time.Date(year, 2, 28, 0, 0, 0, 0, loc), time.Date(year, 2, 29, 0, 0, 0, 0, loc), time.Date(year, 3, 1, 0, 0, 0, 0, loc)} {
		m[d.YearDay()-1] = true
	}
	_, prev := y0.Zone()
	for h := 0; h < days*24+2; h++ {
		t := y0.Add(time.Duration(h) * time.Hour)
		if t.Year() != year {
			break
		}
		_, off := t.Zone()
		if off != prev {
			m[t.YearDay()-1] = true
			if t.YearDay() >= 2 {
				m[t.YearDay()-2] = true
			}
			prev = off
		}
	}
	return m
}

func c30Enum(c *mc.Ctx, yield func(c30Spec)) {
	for _, z := range c30Zones {
		loc, err := time.LoadLocation(z)
		if err != nil {
			panic(err)
		}
		for _, y := range c30Years {
			days := time.Date(y, 12, 31, 0, 0, 0, 0, loc).YearDay()
			sp := c30Special(loc, y)
			for _, tf := range AllTF() {
				d := tfDur(tf)
				switch {
				case d < time.Minute && !c.Thorough():
					for day := 0; day < days; day++ {
						if sp[day] {
							yield(c30Spec{z, y, tf, day, day + 1})
						}
					}
				case d < time.Minute:
					for day := 0; day < days; day += 8 {
						hi := day + 8
						if hi > days {
							hi = days
						}
						yield(c30Spec{z, y, tf, day, hi})
					}
				default:
					for day := 0; day < days; day += 92 {
						hi := day + 92
						if hi > days {
							hi = days
						}
						yield(c30Spec{z, y, tf, day, hi})
					}
				}
			}
		}
	}
}

func c30ZoneClass(z string) string {
	switch z {
	case "UTC", "Asia/Tokyo":
		return "fixed-offset"
	case "Australia/Lord_Howe":
		return "half-hour-dst"
	}
	return "dst"
}

func c30Run(c *mc.Ctx, s c30Spec) {
	loc, _ := time.LoadLocation(s.Zone)
	utils.InstanceConfig.Timezone = loc
	defer func() { utils.InstanceConfig.Timezone = time.UTC }()
	tf := tfDur(s.TF)
	y0 := time.Date(s.Year, 1, 1, 0, 0, 0, 0, loc)
	y1 := time.Date(s.Year+1, 1, 1, 0, 0, 0, 0, loc)
	sp := c30Special(loc, s.Year)
	zc := c30ZoneClass(s.Zone)
	icls := func(t time.Time) string {
		tl := t.In(loc)
		d := tl.YearDay() - 1
		switch {
		case d == 0 || tl.Month() == 12 && tl.Day() == 31:
			return "year-edge"
		case tl.Month() == 2 && tl.Day() >= 28 || tl.Month() == 3 && tl.Day() == 1:
			return "leap-day"
		case sp[d]:
			return "dst-edge"
		}
		return "other"
	}
	sig := func(sym string, t time.Time) string { return sym + "|" + s.TF + "|" + zc + "|" + icls(t) }
	var n int64
	var prevIdx int64 = -1 << 62
	first := true
	check := func(st, next time.Time) {
		idx := io.TimeToIndex(st, tf)
		for _, t := range []time.Time{st.Add(1), next.Add(-1)} {
			if t.Before(next) && !t.Before(st) {
				if i2 := io.TimeToIndex(t, tf); i2 != idx {
					c.Violate(sig("same-interval-two-indices", st), fmt.Sprintf("%s: instants %v and %v of one interval map to indices %d and %d", s.Zone, st, t, idx, i2))
				}
			}
		}
		// the slot belongs to the instant, not to the Location the time.Time value happens to carry
		for _, alt := range []time.Time{st.UTC(), st.In(c30OtherZone), next.Add(-1).UTC()} {
			if i4 := io.TimeToIndex(alt, tf); i4 != idx {
				c.Violate(sig("index-depends-on-location", st), fmt.Sprintf("%s: the interval starting %v has index %d, but the same interval given as %v gets index %d", s.Zone, st, idx, alt, i4))
			}
		}
		back := io.IndexToTime(idx, tf, int16(s.Year))
		if !back.Equal(st) {
			c.Violate(sig("index-to-time-not-interval-start", st), fmt.Sprintf("%s: interval starting %v has index %d, which converts back to %v", s.Zone, st, idx, back))
		} else if i3 := io.TimeToIndex(back, tf); i3 != idx {
			c.Violate(sig("index-roundtrip", st), fmt.Sprintf("%s: index %d -> %v -> %d", s.Zone, idx, back, i3))
		}
		if !first && idx <= prevIdx {
			c.Violate(sig("indices-not-distinct", st), fmt.Sprintf("%s: consecutive intervals (second starts %v) have indices %d then %d", s.Zone, st, prevIdx, idx))
		}
		for _, rs := range []int{24, 12} {
			off := io.IndexToOffset(idx, int32(rs))
			fsz := io.FileSize(tf, s.Year, rs)
			if off < io.Headersize {
				c.Violate(sig("offset-in-header", st), fmt.Sprintf("%s: interval starting %v (index %d) maps to file offset %d, inside the %d-byte header", s.Zone, st, idx, off, io.Headersize))
			} else if off > fsz-int64(rs) {
				c.Violate(sig("offset-beyond-file", st), fmt.Sprintf("%s: interval starting %v (index %d) maps to offset %d but the year file has %d bytes", s.Zone, st, idx, off, fsz))
			}
		}
		prevIdx, first = idx, false
		n++
	}
	if tf == 24*time.Hour {
		for d := s.DayLo; d < s.DayHi; d++ {
			st := time.Date(s.Year, 1, 1+d, 0, 0, 0, 0, loc)
			next := time.Date(s.Year, 1, 2+d, 0, 0, 0, 0, loc)
			check(st, next)
		}
	} else {
		lo := time.Date(s.Year, 1, 1+s.DayLo, 0, 0, 0, 0, loc)
		hi := time.Date(s.Year, 1, 1+s.DayHi, 0, 0, 0, 0, loc)
		if hi.After(y1) {
			hi = y1
		}
		// first slot start >= lo
		k := lo.Sub(y0) / tf
		st := y0.Add(k * tf)
		if st.Before(lo) {
			st = st.Add(tf)
		}
		for ; st.Before(hi); st = st.Add(tf) {
			next := st.Add(tf)
			if next.After(y1) {
				next = y1
			}
			check(st, next)
		}
	}
	c.EvalBulk(n)
	c.Outcome(s.TF + "/" + zc)
	if s.DayLo == 0 {
		c.Sample(map[string]any{"zone": s.Zone, "year": s.Year, "tf": s.TF, "days": fmt.Sprintf("[%d,%d)", s.DayLo, s.DayHi), "slots": n})
	}
}
