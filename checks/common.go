// Package checks holds one harness per property (driver + oracle + signature function).
package checks

import (
	"fmt"
	"math"
	"reflect"
	"sort"
	"strings"
	"time"

	"github.com/alpacahq/marketstore/v4/utils"
	"github.com/alpacahq/marketstore/v4/utils/io"
	"github.com/alpacahq/marketstore/v4/verif/rt/vos"
	"github.com/alpacahq/marketstore/v4/verif/world"
)

// AllTF is the list of supported on-disk timeframes, taken from the code under test.
func AllTF() []string {
	var l []string
	for _, tf := range utils.Timeframes {
		l = append(l, tf.String)
	}
	return l
}

func tfDur(tf string) time.Duration {
	for _, t := range utils.Timeframes {
		if t.String == tf {
			return t.Duration
		}
	}
	panic("unknown timeframe " + tf)
}

// intervalStart is the reference definition of the interval containing t for timeframe tf in zone
// loc: intervals are counted from Jan 1 00:00 local time of t's year; a 1D interval is the local
// calendar day.
func intervalStart(t time.Time, tf time.Duration, loc *time.Location) time.Time {
	tl := t.In(loc)
	if tf == 24*time.Hour {
		return time.Date(tl.Year(), tl.Month(), tl.Day(), 0, 0, 0, 0, loc)
	}
	y0 := time.Date(tl.Year(), 1, 1, 0, 0, 0, 0, loc)
	k := tl.Sub(y0) / tf
	return y0.Add(k * tf)
}

// colOf builds a typed slice of n elements of type name typ from int64 seeds.
func colOf(typ string, vals []int64) any {
	switch typ {
	case "i1":
		o := make([]int8, len(vals))
		for i, v := range vals {
			o[i] = int8(v)
		}
		return o
	case "i2":
		o := make([]int16, len(vals))
		for i, v := range vals {
			o[i] = int16(v)
		}
		return o
	case "i4":
		o := make([]int32, len(vals))
		for i, v := range vals {
			o[i] = int32(v)
		}
		return o
	case "i8":
		o := make([]int64, len(vals))
		copy(o, vals)
		return o
	case "u1":
		o := make([]uint8, len(vals))
		for i, v := range vals {
			o[i] = uint8(v)
		}
		return o
	case "u2":
		o := make([]uint16, len(vals))
		for i, v := range vals {
			o[i] = uint16(v)
		}
		return o
	case "u4":
		o := make([]uint32, len(vals))
		for i, v := range vals {
			o[i] = uint32(v)
		}
		return o
	case "u8":
		o := make([]uint64, len(vals))
		for i, v := range vals {
			o[i] = uint64(v)
		}
		return o
	case "f4":
		o := make([]float32, len(vals))
		for i, v := range vals {
			o[i] = float32(v)
		}
		return o
	case "f8":
		o := make([]float64, len(vals))
		for i, v := range vals {
			o[i] = float64(v)
		}
		return o
	case "U16":
		o := make([][16]rune, len(vals))
		for i, v := range vals {
			s := fmt.Sprintf("s%d", v)
			for j, r := range s {
				if j < 16 {
					o[i][j] = r
				}
			}
		}
		return o
	}
	panic("unknown type " + typ)
}

// boundaryVals returns the boundary alphabet of a column type as a typed slice.
func boundaryVals(typ string) any {
	switch typ {
	case "i1":
		return []int8{0, 1, -1, math.MinInt8, math.MaxInt8}
	case "i2":
		return []int16{0, 1, -1, math.MinInt16, math.MaxInt16}
	case "i4":
		return []int32{0, 1, -1, math.MinInt32, math.MaxInt32}
	case "i8":
		return []int64{0, 1, -1, math.MinInt64, math.MaxInt64}
	case "u1":
		return []uint8{0, 1, 127, 128, math.MaxUint8}
	case "u2":
		return []uint16{0, 1, math.MaxInt16, math.MaxUint16}
	case "u4":
		return []uint32{0, 1, math.MaxInt32, math.MaxUint32}
	case "u8":
		return []uint64{0, 1, math.MaxInt64, math.MaxUint64}
	case "f4":
		return []float32{0, 1, -1, math.SmallestNonzeroFloat32, math.MaxFloat32, -math.MaxFloat32, float32(math.Inf(1)), float32(math.Inf(-1)), float32(math.NaN()), 1.5}
	case "f8":
		return []float64{0, 1, -1, math.SmallestNonzeroFloat64, math.MaxFloat64, -math.MaxFloat64, math.Inf(1), math.Inf(-1), math.NaN(), 1.5, 16777217}
	case "U16":
		mk := func(s string) (o [16]rune) {
			for j, r := range []rune(s) {
				if j < 16 {
					o[j] = r
				}
			}
			return
		}
		return [][16]rune{mk(""), mk("a"), mk("0123456789abcdef"), mk("日本語"), mk("\x00x")}
	}
	panic("unknown type " + typ)
}

var allTypes = []string{"i1", "i2", "i4", "i8", "u1", "u2", "u4", "u8", "f4", "f8", "U16"}

// typeStr maps our short names to the server's CREATE type strings.
func typeStr(typ string) string {
	if typ == "U16" {
		return "U16"
	}
	return typ
}

// sameVal compares two column values bitwise-faithfully (NaN equals NaN).
func sameVal(a, b any) bool {
	switch x := a.(type) {
	case float32:
		y, ok := b.(float32)
		return ok && math.Float32bits(x) == math.Float32bits(y)
	case float64:
		y, ok := b.(float64)
		return ok && math.Float64bits(x) == math.Float64bits(y)
	}
	return reflect.DeepEqual(a, b)
}

// csFixed builds a fixed-record column series: Epoch (unix seconds) + columns.
func csFixed(times []time.Time, names []string, cols []any) *io.ColumnSeries {
	cs := io.NewColumnSeries()
	ep := make([]int64, len(times))
	for i, t := range times {
		ep[i] = t.Unix()
	}
	cs.AddColumn("Epoch", ep)
	for i, n := range names {
		cs.AddColumn(n, cols[i])
	}
	return cs
}

// csVar builds a variable-record column series: Epoch + columns + Nanoseconds.
func csVar(times []time.Time, names []string, cols []any) *io.ColumnSeries {
	cs := csFixed(times, names, cols)
	ns := make([]int32, len(times))
	for i, t := range times {
		ns[i] = int32(t.Nanosecond())
	}
	cs.AddColumn("Nanoseconds", ns)
	return cs
}

// outsideHash hashes everything on the device outside root (C16 and the "nothing outside the root
// changes" clauses).
func outsideHash(root string) uint64 {
	var sb strings.Builder
	vos.Cur().FS().Walk("/", func(p string, dir bool, size int64, read func() []byte) {
		if p == root || strings.HasPrefix(p, root+"/") {
			return
		}
		if dir {
			fmt.Fprintf(&sb, "D %s\n", p)
		} else {
			fmt.Fprintf(&sb, "F %s %d %x\n", p, size, read())
		}
	})
	h := uint64(14695981039346656037)
	for _, c := range []byte(sb.String()) {
		h ^= uint64(c)
		h *= 1099511628211
	}
	return h
}

func sortedKeys[V any](m map[string]V) []string {
	var l []string
	for k := range m {
		l = append(l, k)
	}
	sort.Strings(l)
	return l
}

// errClass reduces an error text to a stable class (no paths, numbers or addresses).
func errClass(err error) string {
	if err == nil {
		return "nil"
	}
	s := err.Error()
	var sb strings.Builder
	for _, w := range strings.Fields(s) {
		if strings.ContainsAny(w, "/0123456789") {
			continue
		}
		sb.WriteString(w)
		sb.WriteByte(' ')
		if sb.Len() > 60 {
			break
		}
	}
	return strings.TrimSpace(sb.String())
}

var _ = world.Root

func lenOf(s any) int { return reflect.ValueOf(s).Len() }

func sliceTo(s any, n int) any { return reflect.ValueOf(s).Slice(0, n).Interface() }

func indexOf(s any, i int) any { return reflect.ValueOf(s).Index(i).Interface() }

const time3 = time.Minute

// safely runs f and returns a description if it panicked.
func safely(f func()) string { return world.Safely(f) }
