package checks

import (
	"fmt"
	"strings"
	"time"

	"github.com/alpacahq/marketstore/v4/verif/mc"
	"github.com/alpacahq/marketstore/v4/verif/rt/vrt"
	"github.com/alpacahq/marketstore/v4/verif/world"
)

// C18 Concurrent writes and queries are safe and read-committed.
// Rows carry the write's tag in BOTH columns (V, W): a row with V != W is a torn row.

type c18Write struct {
	key      string
	variable bool
	t        time.Time
	tag      int32
	n        int // rows of the request, all in the interval of t, one second apart, tags tag..tag+n-1 (0 = 1)
}

func (wr c18Write) rows() ([]time.Time, []int32) {
	n := wr.n
	if n == 0 {
		n = 1
	}
	ts, tags := make([]time.Time, n), make([]int32, n)
	for i := range ts {
		ts[i], tags[i] = wr.t.Add(time.Duration(i)*time.Second), wr.tag+int32(i)
	}
	return ts, tags
}

type c18Thread struct {
	name   string
	writes []c18Write // a writer thread issues these requests in order
	reads  []string   // a reader thread queries these buckets in order
}

func c18Scenario(name string, pre []c18Write, threads []c18Thread) *scenario {
	doWrite := func(w *world.World, wr c18Write) error {
		ts, tags := wr.rows()
		cols := []any{tags, append([]int32{}, tags...)}
		if wr.variable {
			return w.WriteCS(wr.key, csVar(ts, []string{"V", "W"}, cols), true)
		}
		return w.WriteCS(wr.key, csFixed(ts, []string{"V", "W"}, cols), false)
	}
	return &scenario{
		races: true, // C18: "the server has no data races"
		name: name,
		cfg:  nil,
		body: func(x *execCtx) {
			vrt.Branching(false) // setup (startup, pre-population) runs on the default schedule only
			w, obs := world.Start(world.Config{BackgroundSync: true})
			if !obs.OK() {
				x.failed = "startup: " + obs.String()
				return
			}
			vrt.Quiesce()
			for _, wr := range pre {
				if err := doWrite(w, wr); err != nil {
					x.failed = "setup write: " + err.Error()
					return
				}
			}
			vrt.Quiesce()
			vrt.Branching(true)
			vrt.AllowTimer(tickWALd, 1) // the WAL flush timer may fire early once during the concurrent part
			var ths []*vrt.Thread
			for _, th := range threads {
				th := th
				ths = append(ths, vrt.Spawn(th.name, func() {
					for _, wr := range th.writes {
						err := doWrite(w, wr)
						x.note("%s wrote %d err=%v", th.name, wr.tag, err)
					}
					for qi, k := range th.reads {
						tab, err := w.QueryAll(k)
						if err != nil {
							x.note("%s query#%d %s ERROR %v", th.name, qi, k, err)
							x.data["qerr"] = fmt.Sprintf("%s|%s", k, err)
							continue
						}
						vi, wi := tab.Col("V"), tab.Col("W")
						var tags []string
						for _, r := range tab.Rows {
							tags = append(tags, fmt.Sprintf("%v/%v", r[vi], r[wi]))
						}
						x.note("%s query#%d %s rows %s", th.name, qi, k, strings.Join(tags, " "))
					}
				}))
			}
			vrt.Join(ths...)
		},
		judge: func(x *execCtx, sch *vrt.Sched) (vs []mc.Violation) {
			issued := map[string]map[string]int{} // key -> "tag/tag" -> times written
			varKey := map[string]bool{}
			add := func(wr c18Write) {
				if issued[wr.key] == nil {
					issued[wr.key] = map[string]int{}
				}
				_, tags := wr.rows()
				for _, tg := range tags {
					issued[wr.key][fmt.Sprintf("%d/%d", tg, tg)]++
				}
				varKey[wr.key] = wr.variable
			}
			for _, wr := range pre {
				add(wr)
			}
			for _, th := range threads {
				for _, wr := range th.writes {
					add(wr)
				}
			}
			nq := 0
			for _, o := range x.obs {
				f := strings.Fields(o)
				if len(f) < 4 || !strings.HasPrefix(f[1], "query#") {
					continue
				}
				nq++
				key := f[2]
				rt := "fixed"
				if varKey[key] {
					rt = "variable"
				}
				if f[3] == "ERROR" {
					vs = append(vs, mc.Violation{Sig: "query-error|" + rt + "|" + failingCall(o), What: o})
					continue
				}
				seen := map[string]int{}
				for _, tg := range f[4:] {
					seen[tg]++
					p := strings.Split(tg, "/")
					switch {
					case len(p) == 2 && p[0] != p[1]:
						vs = append(vs, mc.Violation{Sig: "torn-row|" + rt, What: fmt.Sprintf("%s: row with columns %s (the two columns of a row always carry the same value)", o, tg)})
					case issued[key][tg] == 0:
						vs = append(vs, mc.Violation{Sig: "row-from-no-write|" + rt, What: fmt.Sprintf("%s: row %s was never written to %s", o, tg, key)})
					case varKey[key] && seen[tg] > issued[key][tg]:
						vs = append(vs, mc.Violation{Sig: "duplicate-row|" + rt, What: fmt.Sprintf("%s: row %s returned %d times, written %d time(s)", o, tg, seen[tg], issued[key][tg])})
					}
				}
			}
			last := ""
			if len(x.obs) > 0 {
				last = x.obs[len(x.obs)-1]
				if i := strings.Index(last, "rows"); i >= 0 {
					last = last[i:]
				}
			}
			x.data["outcome"] = fmt.Sprintf("viol=%d,%s", len(vs), truncStr(last, 40))
			return vs
		},
	}
}

var (
	c18T0  = time.Date(2021, 3, 1, 10, 0, 0, 0, time.UTC)
	c18Var = "V/1H/T"
	c18Fix = "F/1H/B"
	c18Oth = "G/1H/B"
)

var c18Scens = []*scenario{
	c18Scenario("two writers append to one variable interval that already holds data + a reader",
		[]c18Write{{c18Var, true, c18T0.Add(5 * time.Minute), 1, 0}},
		[]c18Thread{
			{name: "W1", writes: []c18Write{{c18Var, true, c18T0.Add(10 * time.Minute), 100, 0}}},
			{name: "W2", writes: []c18Write{{c18Var, true, c18T0.Add(20 * time.Minute), 200, 0}}},
			{name: "R", reads: []string{c18Var, c18Var}},
		}),
	c18Scenario("two writers overwrite one fixed interval + a reader",
		[]c18Write{{c18Fix, false, c18T0, 1, 0}},
		[]c18Thread{
			{name: "W1", writes: []c18Write{{c18Fix, false, c18T0, 100, 0}}},
			{name: "W2", writes: []c18Write{{c18Fix, false, c18T0, 200, 0}}},
			{name: "R", reads: []string{c18Fix, c18Fix}},
		}),
	c18Scenario("one writer + two readers of the same and of another bucket",
		[]c18Write{{c18Fix, false, c18T0, 1, 0}, {c18Oth, false, c18T0, 2, 0}, {c18Var, true, c18T0.Add(5 * time.Minute), 3, 0}},
		[]c18Thread{
			{name: "W1", writes: []c18Write{{c18Var, true, c18T0.Add(10 * time.Minute), 100, 0}, {c18Fix, false, c18T0.Add(time.Hour), 101, 0}}},
			{name: "R1", reads: []string{c18Var, c18Fix}},
			{name: "R2", reads: []string{c18Oth, c18Var}},
		}),
	c18Scenario("a writer adds a new year to the bucket being read",
		[]c18Write{{c18Fix, false, c18T0, 1, 0}},
		[]c18Thread{
			{name: "W1", writes: []c18Write{{c18Fix, false, c18T0.AddDate(1, 0, 0), 100, 0}}},
			{name: "R", reads: []string{c18Fix, c18Fix}},
		}),
	c18Scenario("a request with several rows in one interval + a writer of another bucket (whose flush request can land mid-request) + a reader",
		[]c18Write{{key: c18Var, variable: true, t: c18T0.Add(5 * time.Minute), tag: 1}},
		[]c18Thread{
			{name: "W1", writes: []c18Write{{key: c18Var, variable: true, t: c18T0.Add(10 * time.Minute), tag: 100, n: 3}}},
			{name: "W2", writes: []c18Write{{key: c18Oth, t: c18T0, tag: 200}}},
			{name: "R", reads: []string{c18Var}},
		}),
}

func init() {
	mc.Def(mc.Check{
		ID:    "C18",
		Level: "model_checking",
		Rule: "four thread sets on the real server with the SyncWAL loop and the WAL timer (<=1 fire): (1) two writers appending to one variable interval that already holds data + a reader issuing two all-time queries; (2) two writers overwriting one fixed interval + a reader; " +
			"(3) one writer (variable then fixed write) + two readers of the same and of another bucket; (4) a writer adding a new year file to the bucket being read; (5) a request of three rows in one variable interval + a writer of another bucket + a reader; ALL interleavings with <=2 deviations (thorough: 3; thread sets 3 and 5: 1, thorough 2) with scheduling points at every channel/lock/device operation (so a reader can run between the data write and the index write). " +
			"oracle per execution: no panic, no deadlock, no query error, every row complete (both columns equal) and from an issued write, no variable row more often than written, and no pair of conflicting accesses that is unordered by the happens-before relation of the code's own synchronisation (data race). non-trivial = schedules with >=1 deviation",
		Assume: []string{"data races: happens-before detection (rt/vrt/hb.go) over reads/writes of struct fields and package-level variables of the instrumented packages on every explored schedule; accesses to slice/map elements and inside third-party packages are not tracked", "UTC"},
		QuickMax: 8 * time.Minute, ThorMax: 30 * time.Minute,
		Race: &mc.RaceSpec{Scenarios: []string{"mixed", "same-bucket", "new-buckets"}, Quick: 6, Thorough: 60},
	}, schedEnum(c18Scens, func(c *mc.Ctx, si int) int {
		switch {
		case c.Thorough() && si != 2 && si != 4:
			return 3
		case !c.Thorough() && (si == 2 || si == 4):
			return 1 // writer + two readers with two queries each / the three-row request: one deviation in the quick tier
		}
		return 2
	}), schedRun(c18Scens, "C18"))
}
