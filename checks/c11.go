package checks

import (
	"fmt"
	"sort"
	"time"

	"github.com/alpacahq/marketstore/v4/verif/mc"
	"github.com/alpacahq/marketstore/v4/verif/world"
)

// C11 Time-range queries return exactly the rows in range; C12 row limits.

type fixture struct {
	Name     string
	Key      string
	TF       string
	Variable bool
	Times    []time.Time
}

func ut(y int, m time.Month, d, hh, mm, ss, ns int) time.Time {
	return time.Date(y, m, d, hh, mm, ss, ns, time.UTC)
}

var fixtures = []fixture{
	{"F-1Min", "F1/1Min/B", "1Min", false, []time.Time{ut(2020, 12, 31, 23, 58, 0, 0), ut(2020, 12, 31, 23, 59, 0, 0), ut(2021, 1, 1, 0, 0, 0, 0), ut(2021, 1, 1, 0, 1, 0, 0), ut(2021, 3, 1, 10, 0, 0, 0), ut(2021, 3, 1, 10, 5, 0, 0)}},
	{"F-1D", "F2/1D/B", "1D", false, []time.Time{ut(2020, 12, 30, 0, 0, 0, 0), ut(2020, 12, 31, 0, 0, 0, 0), ut(2021, 1, 2, 0, 0, 0, 0), ut(2021, 1, 3, 0, 0, 0, 0), ut(2021, 6, 1, 0, 0, 0, 0)}},
	{"V-1Min", "V1/1Min/T", "1Min", true, []time.Time{ut(2021, 3, 1, 10, 0, 30, 0), ut(2021, 3, 1, 10, 0, 40, 500000000), ut(2021, 3, 1, 10, 1, 0, 1), ut(2021, 3, 1, 10, 3, 59, 999999999), ut(2021, 3, 1, 10, 7, 15, 0)}},
	{"V-1Min-yearedge", "V2/1Min/T", "1Min", true, []time.Time{ut(2020, 12, 31, 23, 59, 59, 500000000), ut(2021, 1, 1, 0, 0, 0, 250000000), ut(2021, 1, 1, 0, 2, 0, 0)}},
	{"V-1D", "V3/1D/T", "1D", true, []time.Time{ut(2021, 3, 1, 0, 0, 1, 0), ut(2021, 3, 1, 12, 0, 0, 0), ut(2021, 3, 2, 23, 59, 59, 0), ut(2021, 3, 5, 6, 0, 0, 0)}},
	{"V-1Sec", "V4/1Sec/T", "1Sec", true, []time.Time{ut(2021, 3, 1, 10, 0, 0, 100000000), ut(2021, 3, 1, 10, 0, 0, 900000000), ut(2021, 3, 1, 10, 0, 1, 500000000), ut(2021, 3, 1, 10, 0, 3, 0)}},
}

func (f *fixture) build() (*world.World, error) {
	world.FreshDevice()
	w, obs := world.Start(world.Config{BackgroundSync: false})
	if !obs.OK() {
		return nil, fmt.Errorf("startup: %s", obs)
	}
	tags := make([]int32, len(f.Times))
	for i := range tags {
		tags[i] = int32(i + 1)
	}
	var err error
	if f.Variable {
		err = w.WriteCS(f.Key, csVar(f.Times, []string{"V"}, []any{tags}), true)
	} else {
		err = w.WriteCS(f.Key, csFixed(f.Times, []string{"V"}, []any{tags}), false)
	}
	if err != nil {
		w.Close()
		return nil, err
	}
	return w, nil
}

// bounds returns the boundary alphabet of a fixture (sorted, distinct).
func (f *fixture) bounds() []time.Time {
	tf := tfDur(f.TF)
	set := map[int64]time.Time{}
	add := func(t time.Time) {
		for _, d := range []time.Duration{-1, 0, 1} {
			x := t.Add(d)
			if x.Unix() >= 0 {
				set[x.UnixNano()] = x
			}
		}
	}
	for _, t := range f.Times {
		add(t)
		st := intervalStart(t, tf, time.UTC)
		add(st)
		add(st.Add(tf))
		set[st.Add(tf/2).UnixNano()] = st.Add(tf / 2)
	}
	add(ut(2020, 1, 1, 0, 0, 0, 0))
	add(ut(2021, 1, 1, 0, 0, 0, 0))
	add(ut(2022, 1, 1, 0, 0, 0, 0))
	set[0] = time.Unix(0, 0).UTC()
	var l []time.Time
	for _, t := range set {
		l = append(l, t)
	}
	sort.Slice(l, func(i, j int) bool { return l[i].Before(l[j]) })
	l = append(l, world.MaxTime)
	return l
}

type c11Spec struct {
	Fix   int `json:"fixture"`
	Start int `json:"start"` // index into bounds(); all ends are tried inside the case
}

func init() {
	mc.Def(mc.Check{
		ID:    "C11",
		Level: "exploration",
		Rule: "6 stored histories (fixed 1Min across a year edge with a gap, fixed 1D, variable 1Min with two records in one interval, variable 1Min across the year edge, variable 1D, variable 1Sec) x " +
			"ALL ordered pairs (start,end) over the boundary alphabet {every stored timestamp, every interval start/end/midpoint, year edges, each +-1 ns, epoch 0, the frontend's default end}, including empty and inverted ranges; " +
			"each result is compared with the unrestricted result filtered by the statement's definition. a case = (fixture, start) with every end; non-trivial = the expected result is neither empty nor everything",
		Assume:   []string{"UTC", "BackgroundSync=false"},
		QuickMax: 5 * time.Minute, ThorMax: 20 * time.Minute,
	}, c11Enum, c11Run)
	mc.Def(mc.Check{
		ID:    "C12",
		Level: "exploration",
		Rule: "the C11 fixtures x a 12-range subset of the boundary pairs (thorough: every 3rd start x every 2nd end) x N in 1..rows+2 x {from start, from end}; " +
			"the limited result must be the first/last N rows of the same query without a limit. a case = (fixture, range); non-trivial = the unlimited range result has >= 2 rows",
		Assume:   []string{"UTC", "BackgroundSync=false"},
		QuickMax: 5 * time.Minute, ThorMax: 20 * time.Minute,
	}, c12Enum, c12Run)
}

func c11Enum(c *mc.Ctx, yield func(c11Spec)) {
	for fi := range fixtures {
		n := len(fixtures[fi].bounds())
		for si := 0; si < n-1; si++ { // the last bound is the frontend's default end (not a start)
			yield(c11Spec{fi, si})
		}
	}
}

// after treats the frontend's default end (time.Unix(MaxInt64,0), which overflows time arithmetic) as +infinity.
func after(t, end time.Time) bool {
	if end.Equal(world.MaxTime) {
		return false
	}
	return t.After(end)
}

type qrow struct {
	t   time.Time
	tag int32
}

func rowsOf(tab *world.Table) []qrow {
	ei, vi, ni := tab.Col("Epoch"), tab.Col("V"), tab.Col("Nanoseconds")
	var out []qrow
	for _, r := range tab.Rows {
		var ns int64
		if ni >= 0 {
			ns = int64(r[ni].(int32))
		}
		var tag int32
		if vi >= 0 {
			tag = r[vi].(int32)
		}
		out = append(out, qrow{time.Unix(r[ei].(int64), ns).UTC(), tag})
	}
	return out
}

func boundClass(b time.Time, f *fixture) string {
	tf := tfDur(f.TF)
	if b.Equal(world.MaxTime) {
		return "default-end"
	}
	if b.Unix() == 0 {
		return "epoch0"
	}
	st := intervalStart(b, tf, time.UTC)
	switch {
	case b.Equal(st) || b.Equal(st.Add(-1)) && false:
		if b.Month() == 1 && b.Day() == 1 && b.Hour() == 0 && b.Minute() == 0 && b.Second() == 0 {
			return "year-edge"
		}
		return "on-edge"
	case b.Equal(st.Add(tf - 1)):
		return "edge-1ns"
	case b.Equal(st.Add(1)):
		return "edge+1ns"
	}
	return "inside-interval"
}

func sameRows(a, b []qrow) bool {
	if len(a) != len(b) {
		return false
	}
	for i := range a {
		if !a[i].t.Equal(b[i].t) || a[i].tag != b[i].tag {
			return false
		}
	}
	return true
}

func fmtRows(r []qrow) string {
	s := ""
	for _, x := range r {
		s += fmt.Sprintf("(#%d %s) ", x.tag, x.t.Format("2006-01-02T15:04:05.999999999"))
	}
	return s
}

func c11Run(c *mc.Ctx, s c11Spec) {
	f := &fixtures[s.Fix]
	w, err := f.build()
	if err != nil {
		c.Violate("fixture-build|"+f.Name, err.Error())
		return
	}
	defer w.Close()
	tf := tfDur(f.TF)
	rt := "fixed"
	if f.Variable {
		rt = "variable"
	}
	utab, err := w.QueryAll(f.Key)
	if err != nil {
		c.Violate("query-error|unrestricted|"+f.Name, err.Error())
		return
	}
	U := rowsOf(utab)
	B := f.bounds()
	start := B[s.Start]
	nontriv := false
	for _, end := range B {
		var want []qrow
		for _, r := range U {
			if f.Variable {
				if !r.t.Before(start) && !after(r.t, end) {
					want = append(want, r)
				}
			} else {
				lo := intervalStart(start, tf, time.UTC)
				if !r.t.Before(lo) && !after(r.t, end) {
					want = append(want, r)
				}
			}
		}
		if len(want) > 0 && len(want) < len(U) {
			nontriv = true
		}
		var tab *world.Table
		var qerr error
		if p := safely(func() { tab, qerr = w.Query(f.Key, start, end, 0, false, nil) }); p != "" {
			c.Violate("panic|"+rt+"|"+f.TF, fmt.Sprintf("%s: query [%v, %v] panicked: %s", f.Name, start, end, p))
			continue
		}
		c.Count("queries", 1)
		sc, ec := boundClass(start, f), boundClass(end, f)
		if qerr != nil {
			if len(want) == 0 {
				c.Outcome("error-on-empty")
				continue // an error is accepted where nothing is expected
			}
			c.Violate("query-error|"+rt+"|"+f.TF+"|start:"+sc+"|end:"+ec, fmt.Sprintf("%s: query [%v, %v] failed: %v; expected rows %s", f.Name, start.Format(time.RFC3339Nano), end.Format(time.RFC3339Nano), qerr, fmtRows(want)))
			continue
		}
		got := rowsOf(tab)
		if sameRows(got, want) {
			c.Outcome(fmt.Sprintf("rows=%d", minInt(len(want), 3)))
			continue
		}
		sym := "order"
		switch {
		case len(got) > len(want):
			sym = "extra-rows"
		case len(got) < len(want):
			sym = "missing-rows"
		}
		// cause class: the one known failure mode is "no returned row is at or before the end bound"
		// (nothing is in range, yet the rows after the end are returned); everything else keeps the bound classes
		cause := "start:" + sc + "|end:" + ec
		if sym == "extra-rows" && len(want) == 0 {
			allAfter := true
			for _, r := range got {
				if !after(r.t, end) || r.t.Before(start) {
					allAfter = false
				}
			}
			if allAfter {
				cause = "nothing-in-range,rows-after-end-returned"
			}
		}
		c.Violate(sym+"|"+rt+"|"+cause, fmt.Sprintf("%s: query [%s, %s] returned %s; rows of the unrestricted result in range: %s", f.Name,
			start.Format("2006-01-02T15:04:05.999999999"), end.Format("2006-01-02T15:04:05.999999999"), fmtRows(got), fmtRows(want)))
	}
	c.Eval(fmt.Sprint(s), nontriv)
	if s.Start%7 == 0 {
		c.Sample(map[string]any{"fixture": f.Name, "start": start.Format(time.RFC3339Nano), "ends_tried": len(B), "unrestricted_rows": len(U)})
	}
}

// ---- C12 ----

type c12Spec struct {
	Fix        int `json:"fixture"`
	Start, End int
}

func c12Enum(c *mc.Ctx, yield func(c12Spec)) {
	for fi := range fixtures {
		B := fixtures[fi].bounds()
		n := len(B)
		if c.Thorough() {
			for s := 0; s < n-1; s += 3 {
				for e := s; e < n; e += 2 {
					yield(c12Spec{fi, s, e})
				}
			}
			continue
		}
		// quick: 12 ranges: all-time, and ranges cutting through the data at varied positions
		picks := [][2]int{{0, n - 1}, {0, n / 2}, {n / 2, n - 1}, {n / 4, 3 * n / 4}, {n / 3, n - 1}, {0, n / 3}, {n / 5, n / 2}, {n / 2, 4 * n / 5}, {1, n - 2}, {n / 6, 5 * n / 6}, {2 * n / 5, 3 * n / 5}, {n / 8, 7 * n / 8}}
		for _, p := range picks {
			yield(c12Spec{fi, p[0], p[1]})
		}
	}
}

// c12Boundary classifies, for a variable-length fixture, the interval the limit starts counting in (the one
// holding the range start for a limit from the start, the range end for a limit from the end): "clean" when
// all of its records are in range, "empty" when none is, "partial" when some are.
func c12Boundary(f *fixture, start, end time.Time, fromStart bool, U []qrow) string {
	tf := tfDur(f.TF)
	b := start
	if !fromStart {
		b = end
	}
	if b.Equal(world.MaxTime) || b.Unix() <= 0 {
		return "boundary:clean"
	}
	ist := intervalStart(b, tf, time.UTC)
	inIv := func(t time.Time) bool { return !t.Before(ist) && t.Before(ist.Add(tf)) }
	stored, in := 0, 0
	for _, t := range f.Times {
		if inIv(t) {
			stored++
		}
	}
	for _, r := range U { // the rows of the unlimited query over the same range
		if inIv(r.t) {
			in++
		}
	}
	switch {
	case stored == in:
		return "boundary:clean"
	case in == 0:
		return "boundary:empty"
	}
	return "boundary:partial"
}

func c12Run(c *mc.Ctx, s c12Spec) {
	f := &fixtures[s.Fix]
	w, err := f.build()
	if err != nil {
		c.Violate("fixture-build|"+f.Name, err.Error())
		return
	}
	defer w.Close()
	rt := "fixed"
	if f.Variable {
		rt = "variable"
	}
	B := f.bounds()
	start, end := B[s.Start], B[s.End]
	utab, uerr := w.Query(f.Key, start, end, 0, false, nil)
	var U []qrow
	if uerr == nil {
		U = rowsOf(utab)
	}
	c.Eval(fmt.Sprint(s), len(U) >= 2)
	c.Outcome(fmt.Sprintf("range-rows=%d", minInt(len(U), 3)))
	for n := 1; n <= len(f.Times)+2; n++ {
		for _, fromStart := range []bool{true, false} {
			dir := "from-end"
			want := U
			if fromStart {
				dir = "from-start"
				if len(U) > n {
					want = U[:n]
				}
			} else if len(U) > n {
				want = U[len(U)-n:]
			}
			var tab *world.Table
			var qerr error
			if p := safely(func() { tab, qerr = w.Query(f.Key, start, end, n, fromStart, nil) }); p != "" {
				c.Violate("panic|"+rt+"|"+f.TF+"|"+dir, fmt.Sprintf("%s: limit %d %s over [%v, %v] panicked: %s", f.Name, n, dir, start, end, p))
				continue
			}
			c.Count("queries", 1)
			if qerr != nil {
				if len(want) == 0 {
					continue
				}
				c.Violate("query-error|"+rt+"|"+f.TF+"|"+dir, fmt.Sprintf("%s: limit %d %s over [%v, %v] failed: %v", f.Name, n, dir, start, end, qerr))
				continue
			}
			got := rowsOf(tab)
			if sameRows(got, want) {
				continue
			}
			sym := "wrong-rows"
			switch {
			case len(got) < len(want):
				sym = "too-few-rows"
			case len(got) > len(want):
				sym = "too-many-rows"
			}
			if f.Variable {
				dir += "|" + c12Boundary(f, start, end, fromStart, U)
			}
			c.Violate(sym+"|"+rt+"|"+dir, fmt.Sprintf("%s: limit %d %s over [%s, %s] returned %s; the unlimited query returns %s", f.Name, n, dir,
				start.Format("2006-01-02T15:04:05.999999999"), end.Format("2006-01-02T15:04:05.999999999"), fmtRows(got), fmtRows(U)))
		}
	}
	c.Sample(map[string]any{"fixture": f.Name, "range": []string{start.Format(time.RFC3339Nano), end.Format(time.RFC3339Nano)}, "unlimited_rows": len(U)})
}
