package checks

import (
	"fmt"
	"reflect"
	"time"

	"github.com/alpacahq/marketstore/v4/utils/io"
	"github.com/alpacahq/marketstore/v4/verif/mc"
	"github.com/alpacahq/marketstore/v4/verif/world"
)

// C14 Writes are validated against the bucket schema.

type c14Spec struct {
	BT    [2]string `json:"bucket_types"` // types of bucket columns P and Q
	Rel   string    `json:"rel"`          // same | missing:P | missing:Q | extra | renamed:P | renamed:Q | reordered | retyped:<col>:<type>
	Multi int       `json:"multi"`        // 0: request names only this bucket; 1: also a good bucket that is processed BEFORE it; 2: ... AFTER it
}

var c14Types = []string{"i1", "i2", "i4", "i8", "u1", "u2", "u4", "u8", "f4", "f8"}

func init() {
	mc.Def(mc.Check{
		ID:    "C14",
		Level: "exploration",
		Rule: "bucket schema = columns P,Q over all 100 type pairs of {i1,i2,i4,i8,u1,u2,u4,u8,f4,f8}; input schema in {same, P or Q missing, one extra, P or Q renamed, reordered, P or Q retyped to each of the 10 types}; " +
			"values from the source type's boundary alphabet (restricted to conversions the Go spec defines); the request names this bucket alone, or together with a second, well-formed bucket that the server processes before / after it. " +
			"mismatch => error and, after a later flush, no bucket named in the request changed; match => stored values = Go conversion under the bucket's column names. non-trivial = relation other than same",
		Assume:   []string{"UTC", "BackgroundSync=false", "map iteration order canonicalised by the instrumenter: both processing orders are produced by naming the second bucket before/after the first"},
		QuickMax: 5 * time.Minute, ThorMax: 15 * time.Minute,
	}, c14Enum, c14Run)
}

func c14Enum(c *mc.Ctx, yield func(c14Spec)) {
	var rels []string
	rels = append(rels, "same", "missing:P", "missing:Q", "extra", "renamed:P", "renamed:Q", "reordered")
	for _, col := range []string{"P", "Q"} {
		for _, t := range c14Types {
			rels = append(rels, "retyped:"+col+":"+t)
		}
	}
	for _, a := range c14Types {
		for _, b := range c14Types {
			if !c.Thorough() && a != b && a != "i4" && b != "f8" && a != "u1" {
				continue // quick: the diagonal plus three rows/columns of the type matrix
			}
			for _, r := range rels {
				for m := 0; m < 3; m++ {
					yield(c14Spec{[2]string{a, b}, r, m})
				}
			}
		}
	}
}

// c14SrcVals: source values whose conversion to dst is defined by the Go spec.
func c14SrcVals(src, dst string) any {
	isF := func(t string) bool { return t[0] == 'f' }
	isU := func(t string) bool { return t[0] == 'u' }
	if isF(src) && !isF(dst) {
		if isU(dst) {
			if src == "f4" {
				return []float32{0, 1, 1.5, 100.75}
			}
			return []float64{0, 1, 1.5, 100.75}
		}
		if src == "f4" {
			return []float32{0, 1, -1, 1.5, -100.75}
		}
		return []float64{0, 1, -1, 1.5, -100.75}
	}
	if src == "f8" && dst == "f4" {
		return []float64{0, 1, -1, 1.5, 16777217, 1e-300}
	}
	if src == "f4" || src == "f8" {
		return sliceTo(boundaryVals(src), 8) // without NaN (bit patterns may change), incl. infinities
	}
	return boundaryVals(src)
}

func c14Run(c *mc.Ctx, s c14Spec) {
	world.FreshDevice()
	w, obs := world.Start(world.Config{BackgroundSync: false})
	if !obs.OK() {
		c.Violate("startup-failed", obs.String())
		return
	}
	defer w.Close()
	key := "M/1Min/S"
	good := "A/1Min/S" // sorts before M: processed first
	if s.Multi == 2 {
		good = "Z/1Min/S"
	}
	third := "T/1Min/S"
	for _, k := range []string{key, good, third} {
		if err := w.Create(k, []string{"P", "Q"}, []string{s.BT[0], s.BT[1]}, false); err != nil {
			c.Violate("create-error", err.Error())
			return
		}
	}
	// input schema
	names := []string{"P", "Q"}
	types := []string{s.BT[0], s.BT[1]}
	mismatch := false
	relClass := s.Rel
	var retCol int = -1
	switch {
	case s.Rel == "same":
	case s.Rel == "missing:P":
		names, types, mismatch = names[1:], types[1:], true
	case s.Rel == "missing:Q":
		names, types, mismatch = names[:1], types[:1], true
	case s.Rel == "extra":
		names, types, mismatch = append(names, "R"), append(types, "i4"), true
	case s.Rel == "renamed:P":
		names, mismatch = []string{"P2", "Q"}, true
	case s.Rel == "renamed:Q":
		names, mismatch = []string{"P", "Q2"}, true
	case s.Rel == "reordered":
		names, types = []string{"Q", "P"}, []string{s.BT[1], s.BT[0]}
	default: // retyped:<col>:<type>
		col, ty := s.Rel[8:9], s.Rel[10:]
		retCol = map[string]int{"P": 0, "Q": 1}[col]
		types[retCol] = ty
		relClass = "retyped"
	}
	// values
	n := 1 << 30
	cols := make([]any, len(names))
	for i := range names {
		dst := types[i]
		if nm := names[i]; nm == "P" {
			dst = s.BT[0]
		} else if nm == "Q" {
			dst = s.BT[1]
		}
		cols[i] = c14SrcVals(types[i], dst)
		if l := lenOf(cols[i]); l < n {
			n = l
		}
	}
	base := time.Date(2021, 3, 1, 10, 0, 0, 0, time.UTC)
	times := make([]time.Time, n)
	for i := range times {
		times[i] = base.Add(time.Duration(i) * time.Minute)
	}
	for i := range cols {
		cols[i] = sliceTo(cols[i], n)
	}
	csm := io.NewColumnSeriesMap()
	csm.AddColumnSeries(*world.Key(key), csFixed(times, names, cols))
	if s.Multi != 0 {
		gcols := []any{colOf(s.BT[0], []int64{7}), colOf(s.BT[1], []int64{8})}
		csm.AddColumnSeries(*world.Key(good), csFixed(times[:1], []string{"P", "Q"}, gcols))
	}
	var werr error
	if p := safely(func() { werr = w.WriteCSM(csm, false) }); p != "" {
		c.Violate("panic|write|"+relClass, fmt.Sprintf("write %v with input types %v into bucket %v panicked: %s", names, types, s.BT, p))
		return
	}
	c.Eval(fmt.Sprint(s), s.Rel != "same")
	order := []string{"single", "good-bucket-first", "good-bucket-last"}[s.Multi]
	if mismatch {
		if werr == nil {
			c.Violate("accepted-mismatch|"+relClass+"|"+order, fmt.Sprintf("input columns %v accepted for bucket columns [P Q]", names))
			return
		}
		c.Outcome("rejected:" + order)
		// a later, unrelated request flushes whatever is still queued
		if err := w.WriteCS(third, csFixed(times[:1], []string{"P", "Q"}, []any{colOf(s.BT[0], []int64{1}), colOf(s.BT[1], []int64{2})}), false); err != nil {
			c.Violate("later-write-failed|"+relClass, err.Error())
			return
		}
		for _, k := range []string{key, good} {
			if k == good && s.Multi == 0 {
				continue
			}
			tab, err := w.QueryAll(k)
			if err == nil && tab.Len() > 0 {
				c.Violate("other-bucket-changed|"+order, fmt.Sprintf("request rejected (%v) but after the next flush bucket %s holds %s", werr, k, tab))
			}
		}
		return
	}
	if werr != nil {
		c.Violate("rejected-match|"+relClass+"|"+typePairClass(types, s.BT, names), fmt.Sprintf("input %v (types %v) rejected for bucket types %v: %v", names, types, s.BT, werr))
		return
	}
	c.Outcome("accepted:" + relClass)
	tab, err := w.QueryAll(key)
	if err != nil {
		c.Violate("query-error|"+relClass, err.Error())
		return
	}
	if tab.Len() != n {
		c.Violate("row-count|"+relClass, fmt.Sprintf("wrote %d rows, bucket has %d", n, tab.Len()))
		return
	}
	for i, nm := range names {
		bi := map[string]int{"P": 0, "Q": 1}[nm]
		dstGo := goType(s.BT[bi])
		k := tab.Col(nm)
		if k < 0 {
			c.Violate("column-missing|"+relClass, "column "+nm+" not returned")
			return
		}
		for r := 0; r < n; r++ {
			src := reflect.ValueOf(cols[i]).Index(r)
			want := src.Convert(dstGo).Interface()
			got := tab.Rows[r][k]
			if s.BT[bi] == "i1" { // stored signed bytes read back as unsigned (known, see C08): compare the bit pattern
				if g, ok := got.(uint8); ok {
					got = int8(g)
				}
			}
			if !sameVal(got, want) {
				if s.Rel == "reordered" {
					c.Violate("values-under-wrong-name|reordered", fmt.Sprintf("bucket types %v, input columns %v: column %s holds %v, written %v", s.BT, names, nm, world.FmtVal(got), world.FmtVal(want)))
					return
				}
				c.Violate("wrong-conversion|"+relClass+"|"+types[i]+"->"+s.BT[bi], fmt.Sprintf("column %s: input %v (%s) stored as %v, Go conversion to %s gives %v", nm, src.Interface(), types[i], world.FmtVal(got), s.BT[bi], world.FmtVal(want)))
				return
			}
		}
	}
	if s.Multi != 0 {
		if gt, err := w.QueryAll(good); err != nil || gt.Len() != 1 {
			c.Violate("good-bucket-not-written|"+relClass+"|"+order, fmt.Sprintf("the well-formed second bucket has %v rows (err %v)", gt.Len(), err))
		}
	}
	if retCol >= 0 || s.Rel == "reordered" {
		c.Sample(map[string]any{"bucket_types": s.BT, "relation": s.Rel, "rows": n})
	}
}

func typePairClass(types []string, bt [2]string, names []string) string {
	for i, nm := range names {
		bi := map[string]int{"P": 0, "Q": 1}[nm]
		if types[i] != bt[bi] {
			return types[i] + "->" + bt[bi]
		}
	}
	return "same-types"
}

func goType(t string) reflect.Type {
	return reflect.TypeOf(colOf(t, []int64{0})).Elem()
}
