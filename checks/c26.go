package checks

import (
	"context"
	"fmt"
	"net"
	"sort"
	"strings"
	"time"

	"google.golang.org/grpc/metadata"
	"google.golang.org/grpc/peer"

	pb "github.com/alpacahq/marketstore/v4/proto"
	"github.com/alpacahq/marketstore/v4/replication"
	"github.com/alpacahq/marketstore/v4/verif/mc"
	"github.com/alpacahq/marketstore/v4/verif/rt/vrt"
	"github.com/alpacahq/marketstore/v4/verif/rt/vsync"
)

// C26 Replication survives replicas connecting and disconnecting.
// The real Sender goroutine and the real GetWALStream handler run against a fake gRPC stream whose
// Send can fail at a point chosen by the explorer (= the replica disconnects).

type fakeStream struct {
	name     string
	ctx      context.Context
	got      []byte // first byte of every transaction group received, in order
	failed   bool
	mayFail  bool
	returned bool
}

func (f *fakeStream) Send(r *pb.GetWALStreamResponse) error {
	if f.mayFail && vrt.EnvChoice(f.name+"-disconnects", 2) == 1 {
		f.failed = true
		return fmt.Errorf("transport is closing")
	}
	if len(r.TransactionGroup) > 0 {
		f.got = append(f.got, r.TransactionGroup[0])
	}
	return nil
}
func (f *fakeStream) SetHeader(metadata.MD) error  { return nil }
func (f *fakeStream) SendHeader(metadata.MD) error { return nil }
func (f *fakeStream) SetTrailer(metadata.MD)       {}
func (f *fakeStream) Context() context.Context     { return f.ctx }
func (f *fakeStream) SendMsg(m interface{}) error  { return nil }
func (f *fakeStream) RecvMsg(m interface{}) error  { return nil }

func newFakeStream(name string, port int, mayFail bool) *fakeStream {
	ctx := peer.NewContext(context.Background(), &peer.Peer{Addr: &net.TCPAddr{IP: net.IPv4(10, 0, 0, byte(port)), Port: 1000 + port}})
	return &fakeStream{name: name, ctx: ctx, mayFail: mayFail}
}

func c26Scenario(name string, nCommits int, r1Fails, r2Fails bool) *scenario {
	return &scenario{
		name: name,
		body: func(x *execCtx) {
			srv := replication.NewGRPCReplicationServer()
			snd := replication.NewSender(srv)
			snd.Run(context.Background())
			r1, r2 := newFakeStream("R1", 1, r1Fails), newFakeStream("R2", 2, r2Fails)
			regAt := map[string]int{} // replica -> first commit number issued after it was registered
			vrt.Spawn("R1", func() { _ = srv.GetWALStream(&pb.GetWALStreamRequest{}, r1); r1.returned = true })
			vrt.Spawn("R2", func() { _ = srv.GetWALStream(&pb.GetWALStreamRequest{}, r2); r2.returned = true })
			c := vrt.Spawn("committer", func() {
				for i := 1; i <= nCommits; i++ {
					vrt.Atomic(func() {
						for addr := range srv.StreamChannels {
							nm := "R1"
							if strings.HasSuffix(addr, ":1002") {
								nm = "R2"
							}
							if _, ok := regAt[nm]; !ok {
								regAt[nm] = i
							}
						}
					})
					snd.Send([]byte{byte(i), 0xAA})
				}
			})
			vrt.Join(c)
			vrt.Quiesce() // let the sender goroutine and the stream handlers drain
			x.data["r1"], x.data["r2"] = r1, r2
			x.data["reg"] = regAt
			x.note("R1 got %v failed=%v; R2 got %v failed=%v; registered-before %v", r1.got, r1.failed, r2.got, r2.failed, regAt)
		},
		judge: func(x *execCtx, sch *vrt.Sched) (vs []mc.Violation) {
			reg, _ := x.data["reg"].(map[string]int)
			for _, nm := range []string{"r1", "r2"} {
				f, _ := x.data[nm].(*fakeStream)
				if f == nil {
					continue
				}
				// order: strictly increasing
				for i := 1; i < len(f.got); i++ {
					if f.got[i] <= f.got[i-1] {
						vs = append(vs, mc.Violation{Sig: "reordered-or-duplicated", What: fmt.Sprintf("replica %s received transaction groups %v (not in commit order)", f.name, f.got)})
					}
				}
				if f.failed {
					continue
				}
				if first, ok := reg[f.name]; ok {
					want := []byte{}
					for i := first; i <= nCommits; i++ {
						want = append(want, byte(i))
					}
					// it may have received earlier ones too (registered between the harness' look and the fan-out): must contain want as a suffix
					if len(f.got) < len(want) || string(f.got[len(f.got)-len(want):]) != string(want) {
						vs = append(vs, mc.Violation{Sig: "missing-tg|connected-replica", What: fmt.Sprintf("replica %s was registered before commit %d and never disconnected, but received %v (expected ... %v)", f.name, first, f.got, want)})
					}
				}
			}
			keys := []string{}
			for k, v := range reg {
				keys = append(keys, fmt.Sprint(k, v))
			}
			sort.Strings(keys)
			r1, _ := x.data["r1"].(*fakeStream)
			r2, _ := x.data["r2"].(*fakeStream)
			if r1 != nil && r2 != nil {
				x.data["outcome"] = fmt.Sprintf("viol=%d,r1=%d/%v,r2=%d/%v", len(vs), len(r1.got), r1.failed, len(r2.got), r2.failed)
			}
			return vs
		},
	}
}

// c26SlowReplica: one schedule (no branching), long history: replica R1 stays connected but its stream's Send
// stalls until the committer has issued all n commits (n > the 500-message stream buffer); once it resumes it is
// owed every transaction group committed since it registered, in commit order.
func c26SlowReplica(n int) *scenario {
	return &scenario{
		name: fmt.Sprintf("slow replica: R1 stalls in Send while %d transactions are committed, then resumes", n),
		body: func(x *execCtx) {
			vrt.Branching(false)
			srv := replication.NewGRPCReplicationServer()
			snd := replication.NewSender(srv)
			snd.Run(context.Background())
			gate := &vsync.Mutex{}
			gate.Lock()
			r1 := &slowStream{fakeStream: newFakeStream("R1", 1, false), gate: gate}
			vrt.Spawn("R1", func() { _ = srv.GetWALStream(&pb.GetWALStreamRequest{}, r1) })
			first := 0
			c := vrt.Spawn("committer", func() {
				for i := 1; i <= n; i++ {
					vrt.Atomic(func() {
						if first == 0 && len(srv.StreamChannels) > 0 {
							first = i
						}
					})
					snd.Send([]byte{byte(i >> 8), byte(i)})
				}
				gate.Unlock()
			})
			vrt.Join(c)
			vrt.Quiesce()
			x.data["slow"], x.data["first"] = r1, first
			x.note("R1 registered before commit %d, received %d transaction groups", first, len(r1.ids))
		},
		judge: func(x *execCtx, sch *vrt.Sched) (vs []mc.Violation) {
			r1, _ := x.data["slow"].(*slowStream)
			first, _ := x.data["first"].(int)
			if r1 == nil {
				return nil
			}
			x.data["outcome"] = fmt.Sprintf("slow:first=%d,got=%d", first, len(r1.ids))
			for i := 1; i < len(r1.ids); i++ {
				if r1.ids[i] <= r1.ids[i-1] {
					return []mc.Violation{{Sig: "reordered-or-duplicated", What: fmt.Sprintf("slow replica received transaction group %d after %d", r1.ids[i], r1.ids[i-1])}}
				}
			}
			if first > 0 {
				want := n - first + 1
				if len(r1.ids) < want || r1.ids[len(r1.ids)-1] != n || r1.ids[len(r1.ids)-want] != first {
					vs = append(vs, mc.Violation{Sig: "missing-tg|connected-replica|slow", What: fmt.Sprintf("replica R1 was registered before commit %d and never disconnected; after it resumed it had received %d of the %d transaction groups owed", first, len(r1.ids), want)})
				}
			}
			return vs
		},
	}
}

type slowStream struct {
	*fakeStream
	gate *vsync.Mutex
	ids  []int
}

func (f *slowStream) Send(r *pb.GetWALStreamResponse) error {
	f.gate.Lock()
	f.gate.Unlock()
	if len(r.TransactionGroup) >= 2 {
		f.ids = append(f.ids, int(r.TransactionGroup[0])<<8|int(r.TransactionGroup[1]))
	}
	return nil
}

var c26Scens = []*scenario{
	c26Scenario("sender + committer(3 commits) + two replicas connecting at any time, none disconnects", 3, false, false),
	c26Scenario("sender + committer(3 commits) + two replicas, R1 may disconnect at any send", 3, true, false),
	c26Scenario("sender + committer(2 commits) + two replicas, both may disconnect", 2, true, true),
	c26SlowReplica(600),
}

func init() {
	mc.Def(mc.Check{
		ID:    "C26",
		Level: "model_checking",
		Rule: "threads: the real Sender.Run goroutine, a committer calling Send 3 (2) times, two replicas running the real GetWALStream handler on a fake gRPC stream; a replica 'connects' when its handler thread is scheduled and 'disconnects' when its stream's Send returns an error at a point chosen by the explorer (environment choice); " +
			"ALL interleavings and disconnect points with <=3 deviations (thorough 5); plus one scripted long history (600 commits while a connected replica stalls in Send, more than the 500-message stream buffer). oracle: no panic, no deadlock, every replica receives transaction groups in commit order, and a replica registered before commit i that never disconnects receives i, i+1, ... non-trivial = >=1 deviation",
		Assume:   []string{"the gRPC transport is replaced by a fake stream (Go interface level)", "the unsynchronised StreamChannels map is a data race (reported by the happens-before detector, counted in coverage.hb_races_seen); C26 judges its EFFECTS: accesses at the racy sites are scheduling points"},
		QuickMax: 6 * time.Minute, ThorMax: 30 * time.Minute,
	}, schedEnum(c26Scens, func(c *mc.Ctx, si int) int {
		if si == 3 {
			return 0 // the long history is one scripted schedule
		}
		if c.Thorough() {
			return 5
		}
		return 3
	}), schedRun(c26Scens, "C26"))
	_ = vsync.Mutex{}
}
