package checks

import (
	"fmt"
	"math"
	"sort"
	"time"

	"github.com/alpacahq/marketstore/v4/verif/mc"
	"github.com/alpacahq/marketstore/v4/verif/world"
)

// C09 Variable-length buckets keep every record in time order.

type c09Spec struct {
	TF   string  `json:"tf"`
	Hist [][]int `json:"hist,omitempty"` // requests; each record = interval*4 + offset index
	N    int     `json:"n,omitempty"`    // compressibility axis: n identical records ...
	Two  bool    `json:"two,omitempty"`  // ... spread over two intervals
}

var c09TFs = []string{"1Sec", "1Min", "1H", "1D"}

func c09Intervals(tf time.Duration) []time.Time {
	y1 := time.Date(2021, 1, 1, 0, 0, 0, 0, time.UTC)
	return []time.Time{
		time.Date(2020, 1, 1, 0, 0, 0, 0, time.UTC), // first of year
		intervalStart(time.Date(2020, 7, 1, 12, 0, 0, 0, time.UTC), tf, time.UTC), // mid
		y1.Add(-tf), // last of year
		y1,          // first of next year
	}
}

func c09Offsets(tf time.Duration) []time.Duration {
	return []time.Duration{0, 1, tf / 2, tf - 1}
}

func init() {
	mc.Def(mc.Check{
		ID:    "C09",
		Level: "exploration",
		Rule: "timeframes {1Sec,1Min,1H,1D}; record alphabet = 4 intervals (first/mid/last of 2020, first of 2021) x 4 sub-interval offsets {0,1ns,tf/2,tf-1ns}; " +
			"every single request of 1-2 records, every history of 2 requests over (all singles + doubles over a 6-symbol subset), thorough adds histories of 3 single-record requests and requests of 3 records; " +
			"plus n identical records, n in {1,10,100,1000,5000,20000}, in one interval and spread over two. after every request the all-time query is compared with a record bag. " +
			"non-trivial = >=2 records; distinct by (timeframe, history)",
		Assume:   []string{"UTC", "BackgroundSync=false", "variable compression enabled (default)"},
		QuickMax: 5 * time.Minute, ThorMax: 40 * time.Minute,
	}, c09Enum, c09Run)
}

func c09Enum(c *mc.Ctx, yield func(c09Spec)) {
	for _, tf := range c09TFs {
		small := tf == "1Sec"
		var singles, doubles, dsub [][]int
		for s := 0; s < 16; s++ {
			singles = append(singles, []int{s})
		}
		for a := 0; a < 16; a++ {
			for b := 0; b < 16; b++ {
				doubles = append(doubles, []int{a, b})
			}
		}
		sub := []int{4, 6, 7, 8, 11, 12} // mid@0, mid@tf/2, mid@tf-1, last@0, last@tf-1, next@0
		for _, a := range sub {
			for _, b := range sub {
				dsub = append(dsub, []int{a, b})
			}
		}
		for _, r := range singles {
			yield(c09Spec{TF: tf, Hist: [][]int{r}})
		}
		if !small || c.Thorough() {
			for _, r := range doubles {
				yield(c09Spec{TF: tf, Hist: [][]int{r}})
			}
		}
		set := append(append([][]int{}, singles...), dsub...)
		if small && !c.Thorough() {
			set = nil
			for _, s := range sub {
				set = append(set, []int{s})
			}
			set = append(set, []int{6, 4}, []int{4, 4})
		}
		for _, a := range set {
			for _, b := range set {
				yield(c09Spec{TF: tf, Hist: [][]int{a, b}})
			}
		}
		if c.Thorough() && !small {
			for _, a := range sub {
				for _, b := range sub {
					for _, d := range sub {
						yield(c09Spec{TF: tf, Hist: [][]int{{a}, {b}, {d}}})
						yield(c09Spec{TF: tf, Hist: [][]int{{a, b, d}}})
					}
				}
			}
		}
		for _, n := range []int{1, 10, 100, 1000, 5000, 20000} {
			if small && n > 1000 && !c.Thorough() {
				continue
			}
			yield(c09Spec{TF: tf, N: n})
			yield(c09Spec{TF: tf, N: n, Two: true})
		}
	}
}

type c09Rec struct {
	t   time.Time
	tag int32
}

func c09Run(c *mc.Ctx, s c09Spec) {
	tf := tfDur(s.TF)
	key := "T/" + s.TF + "/V"
	world.FreshDevice()
	w, obs := world.Start(world.Config{BackgroundSync: false})
	if !obs.OK() {
		c.Violate("startup-failed", obs.String())
		return
	}
	defer w.Close()
	ivs := c09Intervals(tf)
	offs := c09Offsets(tf)
	var reqs [][]c09Rec
	pcls := "other"
	if s.N > 0 {
		var r []c09Rec
		for i := 0; i < s.N; i++ {
			iv := ivs[1]
			if s.Two && i >= s.N/2 {
				iv = ivs[1].Add(tf)
			}
			r = append(r, c09Rec{iv.Add(tf / 4), 7})
		}
		reqs = [][]c09Rec{r}
		if s.N >= 1000 {
			pcls = "highly-compressible"
		}
	} else {
		for ri, req := range s.Hist {
			var r []c09Rec
			for k, sym := range req {
				r = append(r, c09Rec{ivs[sym/4].Add(offs[sym%4]), int32((ri+1)*100 + k + 1)})
			}
			reqs = append(reqs, r)
		}
	}
	var all []c09Rec
	total := 0
	for ri, req := range reqs {
		times := make([]time.Time, len(req))
		tags := make([]int32, len(req))
		for i, r := range req {
			times[i], tags[i] = r.t, r.tag
		}
		var werr error
		if p := safely(func() { werr = w.WriteCS(key, csVar(times, []string{"V"}, []any{tags}), true) }); p != "" {
			c.Violate("panic|write|"+s.TF+"|"+pcls, "write panicked: "+p)
			return
		}
		if werr != nil {
			c.Violate("write-error|"+s.TF+"|"+errClass(werr), fmt.Sprintf("request %d rejected: %v", ri, werr))
			return
		}
		all = append(all, req...)
		total += len(req)
		var tab *world.Table
		var qerr error
		if p := safely(func() { tab, qerr = w.QueryAll(key) }); p != "" {
			c.Violate("panic|query|"+s.TF+"|"+pcls, fmt.Sprintf("all-time query panicked after writing %d records: %s", total, p))
			return
		}
		if qerr != nil {
			c.Violate("query-error|"+s.TF+"|"+pcls+"|"+errClass(qerr), fmt.Sprintf("all-time query failed after request %d: %v", ri, qerr))
			return
		}
		if sig, what := c09Compare(tab, all, tf, s.TF, pcls); sig != "" {
			c.Violate(sig, fmt.Sprintf("after request %d of %v: %s; got %s", ri, s.Hist, what, truncStr(tab.String(), 400)))
			break
		}
	}
	c.Eval(fmt.Sprint(s), total >= 2)
	c.Outcome(fmt.Sprintf("%s/records=%d", pcls, minInt(total, 5)))
	if total <= 6 {
		c.Sample(map[string]any{"tf": s.TF, "history": s.Hist, "records": total})
	}
}

func truncStr(s string, n int) string {
	if len(s) > n {
		return s[:n] + "…"
	}
	return s
}

func minInt(a, b int) int {
	if a < b {
		return a
	}
	return b
}

func c09Compare(tab *world.Table, all []c09Rec, tf time.Duration, tfs, pcls string) (string, string) {
	ei, vi, ni := tab.Col("Epoch"), tab.Col("V"), tab.Col("Nanoseconds")
	if ei < 0 || vi < 0 || ni < 0 {
		return "missing-column|" + tfs, fmt.Sprintf("columns %v", tab.Cols)
	}
	step := int64(math.Ceil(float64(tf.Nanoseconds()) / 4294967296.0))
	// expected multiset by tag
	type exp struct {
		ts []time.Time
	}
	want := map[int32][]time.Time{}
	for _, r := range all {
		want[r.tag] = append(want[r.tag], r.t)
	}
	got := map[int32][]time.Time{}
	var prev time.Time
	for i, r := range tab.Rows {
		t := time.Unix(r[ei].(int64), int64(r[ni].(int32))).UTC()
		tag := r[vi].(int32)
		got[tag] = append(got[tag], t)
		if i > 0 && t.Before(prev) {
			return "wrong-order|" + tfs + "|" + pcls, fmt.Sprintf("row %d at %v precedes row %d at %v", i-1, prev, i, t)
		}
		prev = t
	}
	ivClass := func(t time.Time) string {
		return c08Class(intervalStart(t, tf, time.UTC), tf, nil)
	}
	var tags []int32
	for k := range want {
		tags = append(tags, k)
	}
	sort.Slice(tags, func(i, j int) bool { return tags[i] < tags[j] })
	for _, tag := range tags {
		wl, gl := want[tag], got[tag]
		if len(gl) < len(wl) {
			return "missing-record|" + tfs + "|" + ivClass(wl[0]) + "|" + pcls, fmt.Sprintf("record tag %d written %d time(s), returned %d", tag, len(wl), len(gl))
		}
		if len(gl) > len(wl) {
			return "duplicate-record|" + tfs + "|" + ivClass(wl[0]) + "|" + pcls, fmt.Sprintf("record tag %d written %d time(s), returned %d", tag, len(wl), len(gl))
		}
		// match times (sorted)
		sort.Slice(wl, func(i, j int) bool { return wl[i].Before(wl[j]) })
		sort.Slice(gl, func(i, j int) bool { return gl[i].Before(gl[j]) })
		for i := range wl {
			d := wl[i].Sub(gl[i]).Nanoseconds()
			oc := "offset-" + offClass(wl[i], tf)
			switch {
			case !intervalStart(gl[i], tf, time.UTC).Equal(intervalStart(wl[i], tf, time.UTC)):
				return "time-outside-interval|" + tfs + "|" + oc, fmt.Sprintf("record written at %v returned at %v (another interval)", wl[i].Format(time.RFC3339Nano), gl[i].Format(time.RFC3339Nano))
			case d < 0:
				return "time-later|" + tfs + "|" + oc, fmt.Sprintf("record written at %v returned %d ns later", wl[i].Format(time.RFC3339Nano), -d)
			case d > step || (d == step && float64(d) >= float64(tf.Nanoseconds())/4294967296.0 && d > 0 && tf.Nanoseconds()%4294967296 == 0):
				return "time-imprecise|" + tfs + "|" + oc, fmt.Sprintf("record written at %v returned %d ns earlier; resolution step %d ns", wl[i].Format(time.RFC3339Nano), d, step)
			}
		}
	}
	for tag := range got {
		if _, ok := want[tag]; !ok {
			return "extra-record|" + tfs + "|" + pcls, fmt.Sprintf("record with payload %d returned but never written", tag)
		}
	}
	return "", ""
}

func offClass(t time.Time, tf time.Duration) string {
	o := t.Sub(intervalStart(t, tf, time.UTC))
	switch {
	case o == 0:
		return "0"
	case o == 1:
		return "1ns"
	case o == tf-1:
		return "end"
	}
	return "mid"
}
