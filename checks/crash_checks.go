package checks

import (
	"fmt"
	"strings"
	"time"

	"github.com/alpacahq/marketstore/v4/verif/mc"
	"github.com/alpacahq/marketstore/v4/verif/rt/vos"
)

// C01-C04: the crash-consistency checks. All four run the same histories through crashmc; each
// reports the verdicts of its own property.

func init() {
	rule := "histories = every sequence of <=2 (thorough <=3) operations over {write fixed slot, same slot again, slot in another year (new year file), 2 variable records in one interval, same interval again (continuation), other interval, " +
		"one request with two buckets, create+write new bucket, WAL timer tick, checkpoint timer tick} x WAL rotation interval {1,2}, plus 8 curated histories of 4-6 operations; run on the real write path (real SyncWAL loop, scripted scheduler, BackgroundSync on); "
	assume := []string{"vos device model (validated by vos-conformance)", "process crash: every completed syscall is in the image", "UTC",
		"restart runs with BackgroundSync off (the startup replay path is identical)", "WriteChannelCommandDepth scaled to 256"}
	proc := rule + "crash points = EVERY prefix of the device operation log (process crash); each distinct image is restarted twice through the real startup path and every bucket is read back. " +
		"distinct non-trivial = distinct (history, crash image) pairs whose image differs from the pre-history image"
	mc.Def(mc.Check{ID: "C01", Level: "fault_enumeration", Rule: proc, Assume: assume, QuickMax: 6 * time.Minute, ThorMax: 40 * time.Minute},
		func(c *mc.Ctx, y func(crashSpec)) { crashHistories(c, histLen(c), y) },
		func(c *mc.Ctx, s crashSpec) { crashRun(c, s, "C01", false) })
	mc.Def(mc.Check{ID: "C02", Level: "fault_enumeration", Rule: proc, Assume: assume, QuickMax: 6 * time.Minute, ThorMax: 40 * time.Minute},
		func(c *mc.Ctx, y func(crashSpec)) { crashHistories(c, histLen(c), y) },
		func(c *mc.Ctx, s crashSpec) { crashRun(c, s, "C02", false) })
	pl := rule + "crash points = every prefix of the device log x loss patterns of the data writes not yet covered by an fsync of their file or a global sync: every subset when <=6 are volatile, otherwise none/all/each single lost/each single kept/all of one file lost; " +
		"plus tearing of each volatile write at every 512-byte boundary and at its midpoint (metadata operations are journalled: durable and ordered; a lost write that extended a file leaves zeros). " +
		"distinct non-trivial = distinct (history, image) pairs with at least one lost or torn write"
	assumePL := append(append([]string{}, assume...), "power-loss model: data writes volatile until fsync(file)/sync(); metadata journalled; tear granularity 512 bytes")
	mc.Def(mc.Check{ID: "C03", Level: "fault_enumeration", Rule: proc + " PLUS the power-loss images: " + pl, Assume: assumePL, QuickMax: 8 * time.Minute, ThorMax: 50 * time.Minute},
		func(c *mc.Ctx, y func(crashSpec)) { crashHistories(c, histLen(c), y) },
		func(c *mc.Ctx, s crashSpec) { crashRun(c, s, "C03", true) })
	mc.Def(mc.Check{ID: "C04", Level: "fault_enumeration", Rule: pl, Assume: assumePL, QuickMax: 8 * time.Minute, ThorMax: 50 * time.Minute},
		func(c *mc.Ctx, y func(crashSpec)) { crashHistories(c, histLen(c), y) },
		func(c *mc.Ctx, s crashSpec) { crashRun(c, s, "C04", true) })
}

func histLen(c *mc.Ctx) int {
	if c.Thorough() {
		return 3
	}
	return 2
}

type lossPattern struct {
	lost map[int]int // log index -> bytes kept (0 = lost entirely, >0 = torn after that many bytes)
	desc string
}

// volatileWrites returns the indices of data writes in log[:k] not covered by a later fsync of
// their file or a later global sync.
func volatileWrites(log []vos.Op, k int) []int {
	lastSync := map[string]int{}
	lastAll := -1
	for i := 0; i < k; i++ {
		switch log[i].Kind {
		case vos.OpFsync:
			lastSync[log[i].Path] = i
		case vos.OpSyncAll:
			lastAll = i
		}
	}
	var u []int
	for i := 0; i < k; i++ {
		if log[i].Kind != vos.OpWrite {
			continue
		}
		if ls, ok := lastSync[log[i].Path]; ok && ls > i {
			continue
		}
		if lastAll > i {
			continue
		}
		u = append(u, i)
	}
	return u
}

func lossPatterns(log []vos.Op, u []int) []lossPattern {
	var out []lossPattern
	mk := func(idx []int, desc string) {
		m := map[int]int{}
		for _, i := range idx {
			m[i] = 0
		}
		out = append(out, lossPattern{m, desc})
	}
	if len(u) == 0 {
		return nil
	}
	if len(u) <= 6 {
		for mask := 1; mask < 1<<len(u); mask++ {
			var idx []int
			for b := range u {
				if mask&(1<<b) != 0 {
					idx = append(idx, u[b])
				}
			}
			mk(idx, fmt.Sprintf("lost %d of %d volatile writes (subset %b)", len(idx), len(u), mask))
		}
	} else {
		mk(u, fmt.Sprintf("all %d volatile writes lost", len(u)))
		for _, i := range u {
			mk([]int{i}, "one volatile write lost")
		}
		for _, keep := range u {
			var idx []int
			for _, i := range u {
				if i != keep {
					idx = append(idx, i)
				}
			}
			mk(idx, "all volatile writes but one lost")
		}
		files := map[string][]int{}
		for _, i := range u {
			files[log[i].Path] = append(files[log[i].Path], i)
		}
		for _, p := range sortedKeys(files) {
			mk(files[p], "all volatile writes to one file lost")
		}
	}
	// tearing
	for _, i := range u {
		n := len(log[i].Data)
		if n < 2 {
			continue
		}
		cuts := map[int]bool{n / 2: true}
		off := log[i].Off
		for b := (off/512 + 1) * 512; b < off+int64(n); b += 512 {
			cuts[int(b-off)] = true
		}
		for cut := range cuts {
			if cut > 0 && cut < n {
				out = append(out, lossPattern{map[int]int{i: cut}, fmt.Sprintf("one volatile write torn after %d of %d bytes", cut, n)})
			}
		}
	}
	return out
}

func lostObject(log []vos.Op, lp lossPattern) string {
	kinds := map[string]bool{}
	for i := range lp.lost {
		p := log[i].Path
		switch {
		case strings.HasSuffix(p, ".walfile"):
			kinds["wal"] = true
		case strings.HasSuffix(p, ".bin") && log[i].Off < 37024:
			kinds["header"] = true
		case strings.HasSuffix(p, ".bin"):
			kinds["primary-data"] = true
		default:
			kinds["category-file"] = true
		}
	}
	return strings.Join(sortedKeys(kinds), "+")
}

func crashRun(c *mc.Ctx, s crashSpec, which string, power bool) {
	hr := runHistory(s)
	if hr.failed != "" {
		c.Violate("healthy-run-failed", s.String()+": "+hr.failed)
		c.Eval(s.String(), false)
		return
	}
	log := hr.log
	memo := map[uint64]*recovered{}
	baseHash := fsHash(hr.base)
	report := func(v verdicts) {
		var l []mc.Violation
		switch which {
		case "C01", "C04":
			l = v.c01
		case "C02":
			l = v.c02
		case "C03":
			l = v.c03
		}
		for _, x := range l {
			c.Violate(x.Sig, x.What)
		}
		if len(l) > 0 {
			c.Outcome("violating-recovery")
		}
	}
	recov := func(img *vos.FS, twice bool) (*recovered, uint64) {
		h := fsHash(img)
		if r, ok := memo[h]; ok {
			return r, h
		}
		r := recoverImage(img, twice)
		memo[h] = r
		c.Count("recoveries", 1)
		return r, h
	}
	opDesc := func(k int) string {
		if k == 0 {
			return "before the first operation"
		}
		o := log[k-1]
		if o.Kind == vos.OpMark {
			return fmt.Sprintf("after device op %d/%d (mark %s %s)", k, len(log), o.Path, o.Path2)
		}
		return fmt.Sprintf("after device op %d/%d (%s %s off %d len %d)", k, len(log), o.Kind, strings.TrimPrefix(o.Path, "/data/root/"), o.Off, len(o.Data))
	}
	fs := hr.base.Clone()
	for k := 0; k <= len(log); k++ {
		if k > 0 {
			fs.Apply(&log[k-1])
		}
		cp := pointAt(s, log, k)
		if which != "C04" {
			r, h := recov(fs.Clone(), true)
			c.Count("crash_points", 1)
			c.Eval(fmt.Sprint(s.String(), h), h != baseHash)
			if r.start.OK() {
				c.Outcome("recovered:" + strings.SplitN(cp.phase, ":", 2)[0])
			} else {
				c.Outcome("startup-failed")
			}
			report(judge(cp, r, fmt.Sprintf("history %s, process crash %s [phase %s]", s, opDesc(k), cp.phase)))
		}
		if power && k > 0 && log[k-1].Kind != vos.OpMark {
			u := volatileWrites(log, k)
			for _, lp := range lossPatterns(log, u) {
				img := hr.base.Clone()
				for i := 0; i < k; i++ {
					if keep, lost := lp.lost[i]; lost {
						img.ApplyLost(&log[i], keep)
					} else {
						img.Apply(&log[i])
					}
				}
				r, h := recov(img, false)
				c.Count("power_loss_images", 1)
				c.Eval(fmt.Sprint(s.String(), h), true)
				cpl := cp
				// the cause is what was lost, not where the history stood; C03 signatures drop the object list (see judge)
				cpl.phase = "power-loss|lost:" + lostObject(log, lp)
				if r.start.OK() {
					c.Outcome("pl-recovered")
				} else {
					c.Outcome("pl-startup-failed")
				}
				report(judge(cpl, r, fmt.Sprintf("history %s, power loss %s, %s affecting %s [phase %s]", s, opDesc(k), lp.desc, lostObject(log, lp), cp.phase)))
			}
		}
	}
	c.Count("device_ops", int64(len(log)))
	c.Sample(map[string]any{"history": s.String(), "device_ops": len(log), "distinct_images": len(memo)})
}
