package checks

import (
	"fmt"
	"math"
	"time"

	"github.com/alpacahq/marketstore/v4/executor"
	"github.com/alpacahq/marketstore/v4/utils"
	"github.com/alpacahq/marketstore/v4/utils/io"
	"github.com/alpacahq/marketstore/v4/verif/mc"
)

// C10 Sub-interval timestamp encoding is monotone and precise.
//
// Encoder = io.GetIntervalTicks32Bit as called by the write path (index from TimeToIndex, intervals per
// day from the timeframe); decoder = executor.GetTimeFromTicks as called by the read path
// (interval start epoch from IndexToTime).

type c10Spec struct {
	TF   string `json:"tf"`
	Pos  int    `json:"pos"`  // interval position in the year: 0 first, 1 middle, 2 last
	Lo   int64  `json:"lo"`   // first nanosecond offset of the chunk
	Hi   int64  `json:"hi"`   // one past the last
	Step int64  `json:"step"` // stride (1 = every offset)
	Kind string `json:"kind"` // sweep | grid
}

func init() {
	mc.Def(mc.Check{
		ID:    "C10",
		Level: "exploration",
		Rule: "1Sec: every nanosecond offset of a 1-second interval (thorough: all 10^9, three interval positions; quick: every 997th plus +-2000 ns around 0, 0.5 s and 1 s); " +
			"other timeframes: boundary grid {k*r+d} (k in {0,1,2,2^16,2^31-1,2^31,2^32-2,2^32-1}, d in -2..2 ns, r = tf/2^32), every whole and half second of the interval -3..+3 ns, plus a strided sweep; each offset is encoded by the write path's " +
			"encoder and decoded by the read path's decoder; consecutive enumerated offsets are also compared for order. every offset is a distinct non-trivial case",
		Assume:   []string{"timezone UTC", "year 2020"},
		QuickMax: 4 * time.Minute, ThorMax: 30 * time.Minute,
	}, c10Enum, c10Run)
}

func c10Enum(c *mc.Ctx, yield func(c10Spec)) {
	for _, tf := range AllTF() {
		d := tfDur(tf).Nanoseconds()
		for pos := 0; pos < 3; pos++ {
			yield(c10Spec{TF: tf, Pos: pos, Kind: "grid"})
			if tf != "1Sec" {
				// every whole and half second of the interval +-3 ns: where the decoder's second carry is decided
				yield(c10Spec{TF: tf, Pos: pos, Kind: "seconds"})
			}
			if tf == "1Sec" {
				if c.Thorough() {
					const chunks = 64
					for k := int64(0); k < chunks; k++ {
						yield(c10Spec{TF: tf, Pos: pos, Lo: k * d / chunks, Hi: (k + 1) * d / chunks, Step: 1, Kind: "sweep"})
					}
				} else {
					yield(c10Spec{TF: tf, Pos: pos, Lo: 0, Hi: d, Step: 997, Kind: "sweep"})
					for _, m := range []int64{0, d / 2, d - 4000} {
						yield(c10Spec{TF: tf, Pos: pos, Lo: max64(0, m-2000), Hi: min64(d, m+4000), Step: 1, Kind: "sweep"})
					}
				}
				continue
			}
			n := int64(200000)
			if c.Thorough() {
				n = 10000000
			}
			if pos != 1 && !c.Thorough() {
				n = 50000
			}
			stride := d/n | 1 // odd stride
			const chunks = 8
			for k := int64(0); k < chunks; k++ {
				yield(c10Spec{TF: tf, Pos: pos, Lo: k * d / chunks, Hi: (k + 1) * d / chunks, Step: stride, Kind: "sweep"})
			}
			// dense windows at both ends and in the middle
			for _, m := range []int64{0, d / 2, d - 20000} {
				yield(c10Spec{TF: tf, Pos: pos, Lo: max64(0, m), Hi: min64(d, m+20000), Step: 1, Kind: "sweep"})
			}
		}
	}
}

func max64(a, b int64) int64 {
	if a > b {
		return a
	}
	return b
}
func min64(a, b int64) int64 {
	if a < b {
		return a
	}
	return b
}

func c10IntervalStart(tf time.Duration, pos int) time.Time {
	y0 := time.Date(2020, 1, 1, 0, 0, 0, 0, time.UTC)
	switch pos {
	case 0:
		return y0
	case 1:
		return intervalStart(time.Date(2020, 7, 1, 13, 17, 29, 0, time.UTC), tf, time.UTC)
	}
	return time.Date(2021, 1, 1, 0, 0, 0, 0, time.UTC).Add(-tf)
}

func c10Run(c *mc.Ctx, s c10Spec) {
	utils.InstanceConfig.Timezone = time.UTC
	tf := tfDur(s.TF)
	start := c10IntervalStart(tf, s.Pos)
	ipd := utils.Day.Nanoseconds() / tf.Nanoseconds()
	index := io.TimeToIndex(start, tf)
	startEpoch := uint64(io.IndexToTime(index, tf, int16(start.Year())).Unix())
	if int64(startEpoch) != start.Unix() && !(s.TF == "1D" && s.Pos == 0) {
		c.Violate("interval-start-mismatch|"+s.TF, fmt.Sprintf("IndexToTime(TimeToIndex(%v)) = %d, want %d", start, startEpoch, start.Unix()))
	}
	startEpoch = uint64(start.Unix())
	res := float64(tf.Nanoseconds()) / 4294967296.0
	step := int64(math.Ceil(res))
	end := start.Add(tf)
	var prevOff int64 = -1
	var prevTicks uint32
	var prevDec int64
	eval := func(off int64) {
		t := start.Add(time.Duration(off))
		ticks := io.GetIntervalTicks32Bit(t, index, ipd)
		sec, ns := executor.GetTimeFromTicks(startEpoch, uint32(ipd), ticks)
		dec := int64(sec)*1000000000 + int64(ns)
		orig := t.UnixNano()
		cls := c10Class(off, tf.Nanoseconds())
		switch {
		case dec < start.UnixNano() || dec >= end.UnixNano():
			c.Violate("outside-interval|"+s.TF+"|"+cls, fmt.Sprintf("offset %d ns of interval %v decodes to %d ns from interval start (ticks %d)", off, start, dec-start.UnixNano(), ticks))
		case dec > orig:
			c.Violate("decoded-later|"+s.TF+"|"+cls, fmt.Sprintf("offset %d ns decodes %d ns LATER than written (ticks %d)", off, dec-orig, ticks))
		case orig-dec > step:
			c.Violate("imprecise|"+s.TF+"|"+cls, fmt.Sprintf("offset %d ns decodes %d ns earlier than written; resolution step is %d ns", off, orig-dec, step))
		case s.TF == "1Sec" && dec != orig:
			c.Violate("inexact-1Sec|"+cls, fmt.Sprintf("offset %d ns decodes to %d", off, dec-start.UnixNano()))
		}
		if prevOff >= 0 && off > prevOff {
			if ticks < prevTicks {
				c.Violate("ticks-not-monotone|"+s.TF+"|"+cls, fmt.Sprintf("offsets %d < %d but ticks %d > %d", prevOff, off, prevTicks, ticks))
			}
			if dec < prevDec {
				c.Violate("decode-not-monotone|"+s.TF+"|"+cls, fmt.Sprintf("offsets %d < %d but decoded %d > %d", prevOff, off, prevDec, dec))
			}
		}
		prevOff, prevTicks, prevDec = off, ticks, dec
	}
	var n int64
	if s.Kind == "grid" {
		ks := []float64{0, 1, 2, 65536, 2147483647, 2147483648, 4294967294, 4294967295}
		seen := map[int64]bool{}
		var offs []int64
		for _, k := range ks {
			for d := int64(-2); d <= 2; d++ {
				for _, base := range []int64{int64(math.Floor(k * res)), int64(math.Ceil(k * res))} {
					o := base + d
					if o >= 0 && o < tf.Nanoseconds() && !seen[o] {
						seen[o] = true
						offs = append(offs, o)
					}
				}
			}
		}
		sortInt64(offs)
		for _, o := range offs {
			eval(o)
			n++
		}
		c.Sample(map[string]any{"tf": s.TF, "interval_start": start.Format(time.RFC3339), "grid_offsets": offs[:int(min64(6, int64(len(offs))))]})
	} else if s.Kind == "seconds" {
		for half := int64(0); half*500000000 < tf.Nanoseconds(); half++ {
			for d := int64(-3); d <= 3; d++ {
				if o := half*500000000 + d; o >= 0 && o < tf.Nanoseconds() {
					eval(o)
					n++
				}
			}
		}
		c.Sample(map[string]any{"tf": s.TF, "interval_start": start.Format(time.RFC3339), "seconds_grid": "every k*0.5 s of the interval, -3..+3 ns"})
	} else {
		if s.Lo > 0 {
			// predecessor for the order check across the chunk boundary
			p := s.Lo - s.Step
			if p >= 0 {
				eval(p)
			}
		}
		for off := s.Lo; off < s.Hi; off += s.Step {
			eval(off)
			n++
		}
		if s.Lo == 0 {
			c.Sample(map[string]any{"tf": s.TF, "interval_start": start.Format(time.RFC3339), "sweep": fmt.Sprintf("[%d,%d) step %d", s.Lo, s.Hi, s.Step)})
		}
	}
	c.EvalBulk(n)
	c.Outcome(s.TF + "/" + s.Kind)
}

func c10Class(off, tf int64) string {
	switch {
	case off < 1000:
		return "interval-start"
	case off >= tf-1000:
		return "interval-end"
	case off >= tf/2-1000 && off <= tf/2+1000:
		return "midpoint"
	}
	return "interior"
}

func sortInt64(a []int64) {
	for i := 1; i < len(a); i++ {
		for j := i; j > 0 && a[j] < a[j-1]; j-- {
			a[j], a[j-1] = a[j-1], a[j]
		}
	}
}
