package checks

import (
	"fmt"
	"strings"
	"time"

	"github.com/alpacahq/marketstore/v4/utils/io"
	"github.com/alpacahq/marketstore/v4/verif/mc"
	"github.com/alpacahq/marketstore/v4/verif/world"
)

// C15 Bucket schema is preserved across restarts.

type c15Spec struct {
	NCols    int    `json:"ncols"`
	NameLen  int    `json:"name_len"`
	Typ      string `json:"typ"`
	TF       string `json:"tf"`
	Variable bool   `json:"variable"`
	ByWrite  bool   `json:"by_write"` // created by the first write instead of an explicit create
	Write    string `json:"write"`    // none | mid | first (a row in the first interval of the year)
	UTF8     bool   `json:"utf8,omitempty"` // names of NameLen BYTES made of 3-byte runes (fewer runes than bytes)
}

func init() {
	mc.Def(mc.Check{
		ID:    "C15",
		Level: "exploration",
		Rule: "A: column counts {1,2,3,255,256,400,1024} x name lengths {1,31,32,33,64,255,256} bytes (thorough: 12 counts x 14 lengths) on 1Min and 1D (type i4), plus names of {30,32,33,34,96} bytes made of 3-byte UTF-8 runes; B: every type x every timeframe (2 columns, 4-byte names); " +
			"each x {fixed,variable} x created by explicit create / by the first write x later write {none, mid-year row, row in the first interval of the year}; then a restart on the same device. " +
			"creation rejected, or the restarted server reports exactly the created names, types, timeframe and record type, accepts a write with that schema and rejects one with another. non-trivial = creation accepted",
		Assume:   []string{"UTC", "BackgroundSync=false", "virtual clock in 2021: explicit create makes the 2021 file"},
		QuickMax: 5 * time.Minute, ThorMax: 20 * time.Minute,
	}, c15Enum, c15Run)
}

func c15Enum(c *mc.Ctx, yield func(c15Spec)) {
	writes := []string{"none", "mid", "first"}
	for _, v := range []bool{false, true} {
		for _, bw := range []bool{false, true} {
			for _, wr := range writes {
				if bw && wr == "none" {
					continue
				}
				ncs, nls := []int{1, 2, 3, 255, 256, 400, 1024}, []int{1, 31, 32, 33, 64, 255, 256}
				if c.Thorough() {
					ncs, nls = []int{1, 2, 3, 4, 16, 64, 128, 254, 255, 256, 400, 1024}, []int{1, 2, 16, 30, 31, 32, 33, 34, 64, 100, 128, 254, 255, 256}
				}
				for _, nc := range ncs {
					for _, nl := range nls {
						if nl == 1 && nc > 26 {
							continue
						}
						for _, tf := range []string{"1Min", "1D"} {
							yield(c15Spec{nc, nl, "i4", tf, v, bw, wr, false})
						}
					}
				}
				for _, ty := range allTypes {
					for _, tf := range AllTF() {
						yield(c15Spec{2, 4, ty, tf, v, bw, wr, false})
					}
				}
				if wr != "first" {
					for _, nc := range []int{1, 3} {
						for _, nl := range []int{30, 32, 33, 34, 96} {
							yield(c15Spec{nc, nl, "i4", "1Min", v, bw, wr, true})
						}
					}
				}
			}
		}
	}
}

func c15Cause(s c15Spec) string {
	var l []string
	if s.NameLen > 32 {
		l = append(l, "name>32")
	}
	if s.NCols+1 > 255 && s.Write != "none" {
		l = append(l, "shapes>255-in-wal")
	}
	if s.TF == "1D" && s.Write == "first" {
		l = append(l, "1D-index0")
	}
	if len(l) == 0 {
		return "other"
	}
	return strings.Join(l, "+")
}

func c15Run(c *mc.Ctx, s c15Spec) {
	world.FreshDevice()
	w, obs := world.Start(world.Config{BackgroundSync: false})
	if !obs.OK() {
		c.Violate("startup-failed", obs.String())
		return
	}
	key := "S/" + s.TF + "/A"
	names := c28Names(s.NameLen, s.NCols)
	if s.UTF8 {
		for i, n := range names {
			base := strings.TrimRight(n, "x")
			k := (s.NameLen - len(base)) / 3
			n = base + strings.Repeat("語", k)
			names[i] = n + strings.Repeat("x", s.NameLen-len(n))
		}
	}
	uniq := map[string]bool{}
	for _, n := range names {
		uniq[n] = true
	}
	if len(uniq) != len(names) {
		c.Eval(fmt.Sprint(s), false)
		c.Outcome("skipped:names-not-unique") // the generator cannot make that many distinct names of this length
		return
	}
	types := make([]string, s.NCols)
	for i := range types {
		types[i] = s.Typ
	}
	cause := c15Cause(s)
	mkRow := func(t time.Time, seed int64) *io.ColumnSeries {
		cols := make([]any, s.NCols)
		for i := range cols {
			cols[i] = colOf(s.Typ, []int64{seed + int64(i)})
		}
		if s.Variable {
			return csVar([]time.Time{t}, names, cols)
		}
		return csFixed([]time.Time{t}, names, cols)
	}
	mid := time.Date(2021, 6, 15, 12, 0, 0, 0, time.UTC)
	first := time.Date(2021, 1, 1, 0, 0, 0, 0, time.UTC)
	created := false
	if !s.ByWrite {
		var err error
		if p := safely(func() { err = w.Create(key, names, types, s.Variable) }); p != "" {
			c.Violate("panic|create|"+cause, p)
			w.Close()
			return
		}
		created = err == nil
	}
	writeAt := map[string]time.Time{"mid": mid, "first": first}
	if t, ok := writeAt[s.Write]; ok && (created || s.ByWrite) {
		var err error
		if p := safely(func() { err = w.WriteCS(key, mkRow(t, 5), s.Variable) }); p != "" {
			c.Violate("panic|write|"+cause, p)
			w.Close()
			return
		}
		if s.ByWrite {
			created = err == nil
		}
	}
	w.Close()
	c.Eval(fmt.Sprint(s), created)
	if !created {
		c.Outcome("creation-rejected")
		return
	}
	c.Outcome("created:" + cause)
	// restart
	w2, obs := world.Start(world.Config{BackgroundSync: false})
	if !obs.OK() {
		rc := "other"
		if strings.Contains(obs.String(), "ParseTGData") && s.NCols+1 > 255 {
			rc = "shapes>255-in-wal" // C28's finding met by startup replay
		}
		c.Violate("restart-failed|"+rc, "restart after creating the bucket failed: "+obs.String())
		return
	}
	defer w2.Close()
	var info interface{ String() string }
	_ = info
	gi, err := w2.GetInfo(key)
	if err != nil {
		c.Violate("bucket-lost|"+cause, "after restart GetInfo fails: "+err.Error())
		return
	}
	rt := io.FIXED
	if s.Variable {
		rt = io.VARIABLE
	}
	var gotNames, gotTypes []string
	for _, d := range gi.DSV {
		gotNames = append(gotNames, d.Name)
		ts, _ := io.ToTypeStr(d.Type)
		gotTypes = append(gotTypes, ts)
	}
	wantNames := append([]string{"Epoch"}, names...)
	wantTypes := append([]string{"i8"}, types...)
	switch {
	case gi.TimeFrame != tfDur(s.TF):
		c.Violate("schema-changed|timeframe|"+cause, fmt.Sprintf("timeframe %v, created as %s", gi.TimeFrame, s.TF))
	case gi.RecordType != rt:
		c.Violate("schema-changed|record-type|"+cause, fmt.Sprintf("record type %v", gi.RecordType))
	case strings.Join(gotNames, ",") != strings.Join(wantNames, ","):
		nc := "other"
		trunc32 := len(gotNames) == len(wantNames)
		for i := range gotNames {
			if trunc32 && !(gotNames[i] == wantNames[i] || len(wantNames[i]) > 32 && gotNames[i] == wantNames[i][:32]) {
				trunc32 = false
			}
		}
		switch {
		case trunc32:
			nc = "name-truncated-to-32"
		case s.TF == "1D" && s.Write == "first":
			nc = "1D-index0-header-overwritten"
		}
		c.Violate("schema-changed|names|"+nc, fmt.Sprintf("%d columns reported, first differing: %s; created with %d columns of name length %d", len(gotNames), firstDiff(gotNames, wantNames), s.NCols, s.NameLen))
	case strings.Join(gotTypes, ",") != strings.Join(wantTypes, ","):
		c.Violate("schema-changed|types|"+cause, fmt.Sprintf("types %s, created %s", truncStr(strings.Join(gotTypes, ","), 80), truncStr(strings.Join(wantTypes, ","), 80)))
	default:
		// enforcement: same schema accepted, a different schema rejected
		var e1, e2 error
		if p := safely(func() { e1 = w2.WriteCS(key, mkRow(mid.Add(48*time.Hour), 9), s.Variable) }); p != "" {
			c.Violate("panic|write-after-restart|"+cause, p)
			return
		}
		if e1 != nil {
			c.Violate("created-schema-rejected|"+cause, "after restart a write with the created schema is rejected: "+e1.Error())
		}
		other := csFixed([]time.Time{mid.Add(72 * time.Hour)}, []string{"zzz_not_a_column"}, []any{[]int32{1}})
		if s.Variable {
			other = csVar([]time.Time{mid.Add(72 * time.Hour)}, []string{"zzz_not_a_column"}, []any{[]int32{1}})
		}
		_ = safely(func() { e2 = w2.WriteCS(key, other, s.Variable) })
		if e2 == nil && s.NCols == 1 {
			c.Violate("other-schema-accepted|"+cause, "after restart a write with a different column name is accepted")
		} else if e2 == nil {
			c.Violate("other-schema-accepted|"+cause, "after restart a write with different columns is accepted")
		}
	}
	c.Sample(map[string]any{"spec": s, "reported_columns": len(gotNames)})
}

func firstDiff(a, b []string) string {
	for i := 0; i < len(a) && i < len(b); i++ {
		if a[i] != b[i] {
			return fmt.Sprintf("column %d reported %q created %q", i, truncStr(a[i], 40), truncStr(b[i], 40))
		}
	}
	return fmt.Sprintf("%d vs %d columns", len(a), len(b))
}
