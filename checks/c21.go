package checks

import (
	"fmt"
	"math"
	"sort"
	"strings"
	"time"

	"github.com/alpacahq/marketstore/v4/sqlparser"
	"github.com/alpacahq/marketstore/v4/utils"
	"github.com/alpacahq/marketstore/v4/utils/io"
	"github.com/alpacahq/marketstore/v4/verif/mc"
)

// C21 Candle aggregation computes correct OHLC candles; C22 composes across timeframes.
// Both drive the aggregates through sqlparser.AggRunner.Run exactly as a query's function pipeline does.

type c21Spec struct {
	TF   string `json:"tf"`
	Kind string `json:"kind"` // tick | candle
	Rows []int  `json:"rows"` // each = time index * 8 + price index, in input order
}

var c21TFs = []string{"1Min", "5Min", "15Min", "1H", "4H", "1D", "1W", "1M"}
var c21Prices = []float32{-2.5, 0, 1, 7, 3.4e38}

// refWindow is the reference window start (UTC).
func refWindow(t time.Time, tf string) time.Time {
	t = t.UTC()
	switch tf {
	case "1D":
		return time.Date(t.Year(), t.Month(), t.Day(), 0, 0, 0, 0, time.UTC)
	case "1M":
		return time.Date(t.Year(), t.Month(), 1, 0, 0, 0, 0, time.UTC)
	case "1W":
		d := time.Date(t.Year(), t.Month(), t.Day(), 0, 0, 0, 0, time.UTC)
		wd := (int(d.Weekday()) + 6) % 7 // Monday = 0
		return d.AddDate(0, 0, -wd)
	}
	cd, _ := utils.CandleDurationFromString(tf)
	d := cd.Duration()
	e := t.Unix()
	return time.Unix(e-e%int64(d/time.Second), 0).UTC()
}

// c21Grid: six instants, two in each of three consecutive windows (start and an instant inside).
func c21Grid(tf string) []time.Time {
	base := refWindow(time.Date(2021, 3, 9, 10, 20, 0, 0, time.UTC), tf)
	var g []time.Time
	w := base
	for k := 0; k < 3; k++ {
		var next time.Time
		switch tf {
		case "1M":
			next = w.AddDate(0, 1, 0)
		case "1W":
			next = w.AddDate(0, 0, 7)
		case "1D":
			next = w.AddDate(0, 0, 1)
		default:
			cd, _ := utils.CandleDurationFromString(tf)
			next = w.Add(cd.Duration())
		}
		inside := w.Add(next.Sub(w) / 3).Truncate(time.Second)
		g = append(g, w, inside)
		w = next
	}
	return g
}

func init() {
	mc.Def(mc.Check{
		ID:    "C21",
		Level: "exploration",
		Rule: "candle timeframes {1Min,5Min,15Min,1H,4H,1D,1W,1M} x {tick input, candle input} x every ORDERED sequence of <=3 rows (thorough: <=3 over 30 symbols plus length 4 over 12) " +
			"over (6 instants: two per window in three windows) x prices {-2.5,0,1,7,3.4e38}, incl. duplicated timestamps; run through AggRunner.Run with Sum:: and Avg:: columns and compared with a group-by-window reference. " +
			"non-trivial = >=2 rows",
		Assume:   []string{"UTC", "week windows start Monday 00:00 UTC, month windows on the 1st"},
		QuickMax: 4 * time.Minute, ThorMax: 20 * time.Minute,
	}, c21Enum, c21Run)
	mc.Def(mc.Check{
		ID:    "C22",
		Level: "exploration",
		Rule: "the C21 row sequences x pairs (fine,coarse) in {(1Min,5Min),(1Min,15Min),(5Min,15Min),(5Min,1H),(15Min,4H),(1H,4H),(1H,1D)}: " +
			"OHLC(candlecandler_coarse(tickcandler_fine(rows))) must equal OHLC(tickcandler_coarse(rows)). non-trivial = >=2 rows",
		Assume:   []string{"UTC"},
		QuickMax: 4 * time.Minute, ThorMax: 20 * time.Minute,
	}, c22Enum, c22Run)
}

func c21Seqs(c *mc.Ctx, yield func([]int)) {
	var rec func(cur []int, syms []int, maxLen int)
	rec = func(cur []int, syms []int, maxLen int) {
		if len(cur) > 0 {
			yield(append([]int{}, cur...))
		}
		if len(cur) == maxLen {
			return
		}
		for _, s := range syms {
			rec(append(cur, s), syms, maxLen)
		}
	}
	var full, small []int
	for t := 0; t < 6; t++ {
		for p := 0; p < 5; p++ {
			if c.Thorough() || p == 0 || p == 3 || p == 4 {
				full = append(full, t*8+p)
			}
		}
	}
	for _, t := range []int{0, 1, 2, 5} {
		for _, p := range []int{0, 2, 4} {
			small = append(small, t*8+p)
		}
	}
	rec(nil, full, 3)
	if c.Thorough() {
		// length 4 over the reduced alphabet (only the sequences of exactly 4 are new)
		var rec4 func(cur []int)
		rec4 = func(cur []int) {
			if len(cur) == 4 {
				yield(append([]int{}, cur...))
				return
			}
			for _, s := range small {
				rec4(append(cur, s))
			}
		}
		rec4(nil)
	}
}

func c21Enum(c *mc.Ctx, yield func(c21Spec)) {
	for _, tf := range c21TFs {
		for _, kind := range []string{"tick", "candle"} {
			c21Seqs(c, func(r []int) { yield(c21Spec{tf, kind, r}) })
		}
		// tick input whose price is the mean of two columns (Bid, Ask), with Sum/Avg over the first of them
		c21Seqs(c, func(r []int) {
			if len(r) <= 2 {
				yield(c21Spec{tf, "tick2", r})
			}
		})
	}
}

type c21Row struct {
	t          time.Time
	o, h, l, c float32
	vol        float32
	bid, ask   float32 // tick2 input: the price is their mean
}

func c21Rows(tf string, syms []int, kind string) []c21Row {
	g := c21Grid(tf)
	var rows []c21Row
	for i, s := range syms {
		p := c21Prices[s%8]
		r := c21Row{t: g[s/8], vol: float32(i + 1)}
		if kind == "tick2" {
			if p > 1e30 {
				p = 1e6 // Bid+Ask would overflow float32
			}
			r.o, r.h, r.l, r.c = p, p, p, p
			r.bid, r.ask = p-1, p+1 // price = (Bid + Ask) / 2
			r.vol = r.bid           // Sum:: and Avg:: run over Bid
		} else if kind == "tick" {
			r.o, r.h, r.l, r.c = p, p, p, p
		} else {
			r.o, r.h, r.l, r.c = p, p+2, p-2, p+1
		}
		rows = append(rows, r)
	}
	return rows
}

func c21CS(rows []c21Row, kind string) *io.ColumnSeries {
	cs := io.NewColumnSeries()
	ep := make([]int64, len(rows))
	o, h, l, cl, v := make([]float32, len(rows)), make([]float32, len(rows)), make([]float32, len(rows)), make([]float32, len(rows)), make([]float32, len(rows))
	for i, r := range rows {
		ep[i], o[i], h[i], l[i], cl[i], v[i] = r.t.Unix(), r.o, r.h, r.l, r.c, r.vol
	}
	cs.AddColumn("Epoch", ep)
	if kind == "tick2" {
		bid, ask := make([]float32, len(rows)), make([]float32, len(rows))
		for i, r := range rows {
			bid[i], ask[i] = r.bid, r.ask
		}
		cs.AddColumn("Bid", bid)
		cs.AddColumn("Ask", ask)
		return cs
	}
	if kind == "tick" {
		cs.AddColumn("Price", o)
	} else {
		cs.AddColumn("Open", o)
		cs.AddColumn("High", h)
		cs.AddColumn("Low", l)
		cs.AddColumn("Close", cl)
	}
	cs.AddColumn("Vol", v)
	return cs
}

type c21Candle struct {
	start      int64
	o, h, l, c []float32 // admissible values (several when timestamps tie)
	sum        float64
	n          int
}

// c21Ref groups rows by reference window. Open/close admit any row at the earliest/latest instant.
func c21Ref(rows []c21Row, tf string) []c21Candle {
	m := map[int64]*c21Candle{}
	first := map[int64]time.Time{}
	last := map[int64]time.Time{}
	for _, r := range rows {
		w := refWindow(r.t, tf).Unix()
		cd, ok := m[w]
		if !ok {
			cd = &c21Candle{start: w, h: []float32{r.h}, l: []float32{r.l}}
			m[w] = cd
			first[w], last[w] = r.t, r.t
		}
		if r.t.Before(first[w]) {
			first[w] = r.t
		}
		if r.t.After(last[w]) {
			last[w] = r.t
		}
		if r.h > cd.h[0] {
			cd.h[0] = r.h
		}
		if r.l < cd.l[0] {
			cd.l[0] = r.l
		}
		cd.sum += float64(r.vol)
		cd.n++
	}
	for _, r := range rows {
		w := refWindow(r.t, tf).Unix()
		if r.t.Equal(first[w]) {
			m[w].o = append(m[w].o, r.o)
		}
		if r.t.Equal(last[w]) {
			m[w].c = append(m[w].c, r.c)
		}
	}
	var out []c21Candle
	for _, cd := range m {
		out = append(out, *cd)
	}
	sort.Slice(out, func(i, j int) bool { return out[i].start < out[j].start })
	return out
}

func in32(v float32, set []float32) bool {
	for _, x := range set {
		if x == v || math.Float32bits(x) == math.Float32bits(v) {
			return true
		}
	}
	return false
}

func c21Call(kind, tf string) string {
	if kind == "tick2" {
		return "tickcandler('" + tf + "',CandlePrice::Bid,CandlePrice::Ask,Sum::Bid,Avg::Bid)"
	}
	if kind == "tick" {
		return "tickcandler('" + tf + "',Price,Sum::Vol,Avg::Vol)"
	}
	return "candlecandler('" + tf + "',Open,High,Low,Close,Sum::Vol,Avg::Vol)"
}

var c21Agg = sqlparser.NewDefaultAggRunner(nil)

func c21InputClass(rows []c21Row) string {
	seen := map[int64]bool{}
	dup := false
	neg, ext := false, false
	for _, r := range rows {
		if seen[r.t.Unix()] {
			dup = true
		}
		seen[r.t.Unix()] = true
		if r.o < 0 {
			neg = true
		}
		if r.o > 1e30 {
			ext = true
		}
	}
	switch {
	case len(rows) == 1:
		return "single"
	case dup:
		return "duplicate-timestamps"
	case ext:
		return "extreme"
	case neg:
		return "negative"
	}
	return "plain"
}

func c21Run(c *mc.Ctx, s c21Spec) {
	utils.InstanceConfig.Timezone = time.UTC
	rows := c21Rows(s.TF, s.Rows, s.Kind)
	var out *io.ColumnSeries
	var err error
	if p := safely(func() {
		out, err = c21Agg.Run([]string{c21Call(s.Kind, s.TF)}, c21CS(rows, s.Kind), *io.NewTimeBucketKey("S/1Min/T"))
	}); p != "" {
		c.Violate("panic|"+s.Kind+"|"+s.TF, p)
		return
	}
	c.Eval(fmt.Sprint(s), len(rows) >= 2)
	if err != nil {
		c.Violate("error|"+s.Kind+"|"+s.TF, err.Error())
		return
	}
	ref := c21Ref(rows, s.TF)
	c.Outcome(fmt.Sprintf("candles=%d", len(ref)))
	icl := c21InputClass(rows)
	sig := func(sym string) string { return sym + "|" + s.Kind + "candler|" + s.TF + "|" + icl }
	ep, _ := out.GetColumn("Epoch").([]int64)
	o, _ := out.GetColumn("Open").([]float32)
	h, _ := out.GetColumn("High").([]float32)
	l, _ := out.GetColumn("Low").([]float32)
	cl, _ := out.GetColumn("Close").([]float32)
	sumCol := "Vol"
	if s.Kind == "tick2" {
		sumCol = "Bid"
	}
	sum, _ := out.GetColumn(sumCol + "_SUM").([]float64)
	avg, _ := out.GetColumn(sumCol + "_AVG").([]float64)
	desc := func() string {
		var sb strings.Builder
		for _, r := range rows {
			fmt.Fprintf(&sb, "(%s o=%g) ", r.t.Format("01-02T15:04:05"), r.o)
		}
		return sb.String()
	}
	if len(ep) != len(ref) {
		c.Violate(sig("candle-count"), fmt.Sprintf("%d candles returned for %d windows with rows; input %s; epochs %v", len(ep), len(ref), desc(), ep))
		return
	}
	for i, r := range ref {
		switch {
		case ep[i] != r.start:
			c.Violate(sig("window-start"), fmt.Sprintf("candle %d starts %s, want %s; input %s", i, time.Unix(ep[i], 0).UTC(), time.Unix(r.start, 0).UTC(), desc()))
		case !in32(o[i], r.o):
			c.Violate(sig("open"), fmt.Sprintf("candle %d open %g, earliest row(s) have %v; input %s", i, o[i], r.o, desc()))
		case !in32(cl[i], r.c):
			c.Violate(sig("close"), fmt.Sprintf("candle %d close %g, latest row(s) have %v; input %s", i, cl[i], r.c, desc()))
		case !in32(h[i], r.h):
			c.Violate(sig("high"), fmt.Sprintf("candle %d high %g, want %v; input %s", i, h[i], r.h, desc()))
		case !in32(l[i], r.l):
			c.Violate(sig("low"), fmt.Sprintf("candle %d low %g, want %v; input %s", i, l[i], r.l, desc()))
		case len(sum) != len(ref) || sum[i] != r.sum:
			c.Violate(sig("sum"), fmt.Sprintf("candle %d sum %v, want %g; input %s", i, sum, r.sum, desc()))
		case len(avg) != len(ref) || math.Abs(avg[i]-r.sum/float64(r.n)) > 1e-9:
			c.Violate(sig("avg"), fmt.Sprintf("candle %d avg %v, want %g; input %s", i, avg, r.sum/float64(r.n), desc()))
		}
	}
	c.Sample(map[string]any{"tf": s.TF, "kind": s.Kind, "rows": desc(), "candles": len(ref)})
}

// ---- C22 ----

type c22Spec struct {
	Fine, Coarse string
	Rows         []int
}

var c22Pairs = [][2]string{{"1Min", "5Min"}, {"1Min", "15Min"}, {"5Min", "15Min"}, {"5Min", "1H"}, {"15Min", "4H"}, {"1H", "4H"}, {"1H", "1D"}}

func c22Enum(c *mc.Ctx, yield func(c22Spec)) {
	for _, p := range c22Pairs {
		c21Seqs(c, func(r []int) { yield(c22Spec{p[0], p[1], r}) })
	}
}

// c22Grid: instants spread over three coarse windows, hitting several fine windows in each.
func c22Grid(fine, coarse string) []time.Time {
	g := c21Grid(coarse) // two per coarse window
	fd, _ := utils.CandleDurationFromString(fine)
	// move the "inside" instants to a different fine window than the start
	for i := 1; i < len(g); i += 2 {
		g[i] = g[i-1].Add(fd.Duration() + fd.Duration()/3).Truncate(time.Second)
	}
	return g
}

func c22Run(c *mc.Ctx, s c22Spec) {
	utils.InstanceConfig.Timezone = time.UTC
	g := c22Grid(s.Fine, s.Coarse)
	var rows []c21Row
	for i, sym := range s.Rows {
		p := c21Prices[sym%8]
		rows = append(rows, c21Row{t: g[sym/8], o: p, h: p, l: p, c: p, vol: float32(i + 1)})
	}
	tbk := *io.NewTimeBucketKey("S/1Min/T")
	var direct, composed *io.ColumnSeries
	var err1, err2 error
	if p := safely(func() {
		direct, err1 = c21Agg.Run([]string{"tickcandler('" + s.Coarse + "',Price)"}, c21CS(rows, "tick"), tbk)
		composed, err2 = c21Agg.Run([]string{"tickcandler('" + s.Fine + "',Price)", "candlecandler('" + s.Coarse + "',Open,High,Low,Close)"}, c21CS(rows, "tick"), tbk)
	}); p != "" {
		c.Violate("panic|"+s.Fine+">"+s.Coarse, p)
		return
	}
	c.Eval(fmt.Sprint(s), len(rows) >= 2)
	if err1 != nil || err2 != nil {
		c.Violate("error|"+s.Fine+">"+s.Coarse, fmt.Sprint(err1, err2))
		return
	}
	icl := c21InputClass(rows)
	a, b := tableOf(direct), tableOf(composed)
	c.Outcome(fmt.Sprintf("candles=%d", len(a)))
	if len(a) != len(b) {
		c.Violate("candle-count|"+s.Fine+">"+s.Coarse+"|"+icl, fmt.Sprintf("direct %v, composed %v", a, b))
		return
	}
	for i := range a {
		for k, nm := range []string{"Epoch", "Open", "High", "Low", "Close"} {
			if a[i][k] != b[i][k] {
				c.Violate(strings.ToLower(nm)+"-differs|"+s.Fine+">"+s.Coarse+"|"+icl, fmt.Sprintf("candle %d %s: direct %v, composed %v; rows %v", i, nm, a[i], b[i], rows))
				return
			}
		}
	}
	c.Sample(map[string]any{"fine": s.Fine, "coarse": s.Coarse, "rows": len(rows), "candles": len(a)})
}

func tableOf(cs *io.ColumnSeries) [][5]float64 {
	ep, _ := cs.GetColumn("Epoch").([]int64)
	var out [][5]float64
	for i := range ep {
		r := [5]float64{float64(ep[i])}
		for k, nm := range []string{"Open", "High", "Low", "Close"} {
			col, _ := cs.GetColumn(nm).([]float32)
			if i < len(col) {
				r[k+1] = float64(col[i])
			}
		}
		out = append(out, r)
	}
	return out
}
