package checks

import (
	"fmt"
	"io"
	realos "os"
	"path/filepath"
	"sort"
	"strings"

	"github.com/alpacahq/marketstore/v4/verif/mc"
	"github.com/alpacahq/marketstore/v4/verif/rt/vos"
	"github.com/alpacahq/marketstore/v4/verif/world"
)

// vos-conformance: the device model is validated against the real kernel.
//  (a) the device operation logs of crash histories are replayed op by op into a real temporary
//      directory with package os, and the resulting trees are compared byte for byte with the vos images
//      (at every 7th prefix and at the end);
//  (b) a script of operations probing error and read-side semantics (ENOENT, EEXIST, ENOTEMPTY, EISDIR,
//      EOF, short reads, O_TRUNC, O_APPEND, rename over, seek/size) runs on both and the answers must agree.

type confSpec struct {
	Kind string `json:"kind"` // log | script
	Hist []int  `json:"hist,omitempty"`
	N    int    `json:"n,omitempty"`
}

func init() {
	mc.Def(mc.Check{ID: "vos-conformance", Level: "exploration", MinOutcom: 1, Shards: 4,
		Rule: "device-model validation: crash-history operation logs replayed on the real filesystem and compared with the vos images; plus semantic probe scripts run on both"},
		func(c *mc.Ctx, yield func(confSpec)) {
			crashHistories(c, 2, func(s crashSpec) {
				if s.Rotate == 1 {
					yield(confSpec{Kind: "log", Hist: s.Hist})
				}
			})
			for i := range confScripts {
				yield(confSpec{Kind: "script", N: i})
			}
		}, confRun)
}

func treeOfVos(f *vos.FS, root string) map[string]string {
	m := map[string]string{}
	f.Walk(root, func(p string, dir bool, size int64, read func() []byte) {
		rel := strings.TrimPrefix(p, root)
		if dir {
			m[rel] = "D"
		} else {
			m[rel] = fmt.Sprintf("F %d %x", size, mc.Hash(string(read())))
		}
	})
	return m
}

func treeOfReal(root string) map[string]string {
	m := map[string]string{}
	filepath.Walk(root, func(p string, info realos.FileInfo, err error) error {
		if err != nil {
			return nil
		}
		rel := strings.TrimPrefix(p, root)
		if info.IsDir() {
			m[rel] = "D"
		} else {
			b, _ := realos.ReadFile(p)
			m[rel] = fmt.Sprintf("F %d %x", info.Size(), mc.Hash(string(b)))
		}
		return nil
	})
	return m
}

func diffTrees(a, b map[string]string) string {
	var ks []string
	for k := range a {
		ks = append(ks, k)
	}
	for k := range b {
		if _, ok := a[k]; !ok {
			ks = append(ks, k)
		}
	}
	sort.Strings(ks)
	for _, k := range ks {
		if a[k] != b[k] {
			return fmt.Sprintf("%q: vos %q, kernel %q", k, a[k], b[k])
		}
	}
	return ""
}

func applyReal(root string, op *vos.Op) {
	p := filepath.Join(root, op.Path)
	switch op.Kind {
	case vos.OpCreate:
		f, err := realos.OpenFile(p, realos.O_CREATE|realos.O_RDWR, 0o600)
		if err == nil {
			f.Close()
		}
	case vos.OpMkdir:
		realos.Mkdir(p, 0o770)
	case vos.OpWrite:
		f, err := realos.OpenFile(p, realos.O_RDWR, 0o600)
		if err == nil {
			f.WriteAt(op.Data, op.Off)
			f.Close()
		}
	case vos.OpTruncate:
		realos.Truncate(p, op.Off)
	case vos.OpRename:
		realos.Rename(p, filepath.Join(root, op.Path2))
	case vos.OpRemove:
		realos.Remove(p)
	case vos.OpRemoveAll:
		realos.RemoveAll(p)
	}
}

func confRun(c *mc.Ctx, s confSpec) {
	if s.Kind == "script" {
		confScript(c, s.N)
		return
	}
	hr := runHistory(crashSpec{Hist: s.Hist, Rotate: 1})
	if hr.failed != "" {
		c.Violate("healthy-run-failed", hr.failed)
		return
	}
	tmp, err := realos.MkdirTemp("", "vosconf")
	if err != nil {
		c.Violate("tmpdir", err.Error())
		return
	}
	defer realos.RemoveAll(tmp)
	// base image on the real fs
	hr.base.Walk("/", func(p string, dir bool, size int64, read func() []byte) {
		if p == "/" {
			return
		}
		if dir {
			realos.MkdirAll(filepath.Join(tmp, p), 0o770)
		} else {
			realos.WriteFile(filepath.Join(tmp, p), read(), 0o600)
		}
	})
	img := hr.base.Clone()
	for k := range hr.log {
		img.Apply(&hr.log[k])
		applyReal(tmp, &hr.log[k])
		if k%7 == 0 || k == len(hr.log)-1 {
			if d := diffTrees(treeOfVos(img, world.Outer), treeOfReal(filepath.Join(tmp, world.Outer))); d != "" {
				c.Violate("image-differs", fmt.Sprintf("history %v after op %d (%s %s): %s", s.Hist, k, hr.log[k].Kind, hr.log[k].Path, d))
				return
			}
			c.Traces++
		}
	}
	c.Eval(fmt.Sprint(s), true)
	c.Outcome("log-conforms")
	c.Count("ops_replayed_on_kernel", int64(len(hr.log)))
	if len(s.Hist) == 2 && s.Hist[0] == 3 {
		c.Sample(map[string]any{"history": s.Hist, "device_ops": len(hr.log)})
	}
}

// ---- semantic probe scripts ----

// fsys abstracts the two implementations.
type fsys interface {
	do(step string) string
}

type vosSys struct {
	d     *vos.Device
	files map[string]*vos.File
}
type realSys struct {
	root  string
	files map[string]*realos.File
}

func errName(err error) string {
	if err == nil {
		return "ok"
	}
	switch {
	case err == io.EOF:
		return "EOF"
	case realos.IsNotExist(err):
		return "ENOENT"
	case realos.IsExist(err):
		return "EEXIST"
	}
	s := err.Error()
	for _, k := range []string{"not a directory", "is a directory", "directory not empty", "file already closed", "bad file descriptor", "invalid argument", "file name too long", "negative offset"} {
		if strings.Contains(s, k) {
			return k
		}
	}
	return "err"
}

// step syntax: "<op> <args...>"
func (v *vosSys) do(step string) string {
	a := strings.Fields(step)
	p := func(i int) string { return "/t/" + a[i] }
	switch a[0] {
	case "mkdir":
		return errName(v.d.Mkdir(p(1), 0o770))
	case "open":
		flag := flagsOf(a[3:])
		f, err := v.d.OpenFile(p(2), flag, 0o600)
		if err == nil {
			v.files[a[1]] = f
		}
		return errName(err)
	case "write":
		n, err := v.files[a[1]].Write([]byte(a[2]))
		return fmt.Sprint(n, errName(err))
	case "writeat":
		var off int64
		fmt.Sscan(a[3], &off)
		n, err := v.files[a[1]].WriteAt([]byte(a[2]), off)
		return fmt.Sprint(n, errName(err))
	case "read":
		var n int
		fmt.Sscan(a[2], &n)
		b := make([]byte, n)
		k, err := v.files[a[1]].Read(b)
		return fmt.Sprintf("%d %q %s", k, b[:k], errName(err))
	case "readat":
		var n int
		var off int64
		fmt.Sscan(a[2], &n)
		fmt.Sscan(a[3], &off)
		b := make([]byte, n)
		k, err := v.files[a[1]].ReadAt(b, off)
		return fmt.Sprintf("%d %q %s", k, b[:k], errName(err))
	case "seek":
		var off int64
		var wh int
		fmt.Sscan(a[2], &off)
		fmt.Sscan(a[3], &wh)
		k, err := v.files[a[1]].Seek(off, wh)
		return fmt.Sprint(k, errName(err))
	case "trunc":
		var n int64
		fmt.Sscan(a[2], &n)
		return errName(v.files[a[1]].Truncate(n))
	case "close":
		return errName(v.files[a[1]].Close())
	case "sync":
		return errName(v.files[a[1]].Sync())
	case "fstat":
		fi, err := v.files[a[1]].Stat()
		if err != nil {
			return errName(err)
		}
		return fmt.Sprint(fi.Size(), fi.IsDir())
	case "stat":
		fi, err := v.d.Stat(p(1))
		if err != nil {
			return errName(err)
		}
		if fi.IsDir() {
			return "dir"
		}
		return fmt.Sprint(fi.Size())
	case "remove":
		return errName(v.d.Remove(p(1)))
	case "removeall":
		return errName(v.d.RemoveAll(p(1)))
	case "rename":
		return errName(v.d.Rename(p(1), p(2)))
	case "readdir":
		es, err := v.d.ReadDir(p(1))
		var names []string
		for _, e := range es {
			names = append(names, fmt.Sprint(e.Name(), e.IsDir()))
		}
		return fmt.Sprint(names, errName(err))
	case "readfile":
		b, err := v.d.ReadFile(p(1))
		return fmt.Sprintf("%q %s", b, errName(err))
	}
	return "?"
}

func (r *realSys) do(step string) string {
	a := strings.Fields(step)
	p := func(i int) string { return filepath.Join(r.root, "t", a[i]) }
	switch a[0] {
	case "mkdir":
		return errName(realos.Mkdir(p(1), 0o770))
	case "open":
		f, err := realos.OpenFile(p(2), flagsOf(a[3:]), 0o600)
		if err == nil {
			r.files[a[1]] = f
		}
		return errName(err)
	case "write":
		n, err := r.files[a[1]].Write([]byte(a[2]))
		return fmt.Sprint(n, errName(err))
	case "writeat":
		var off int64
		fmt.Sscan(a[3], &off)
		n, err := r.files[a[1]].WriteAt([]byte(a[2]), off)
		return fmt.Sprint(n, errName(err))
	case "read":
		var n int
		fmt.Sscan(a[2], &n)
		b := make([]byte, n)
		k, err := r.files[a[1]].Read(b)
		return fmt.Sprintf("%d %q %s", k, b[:k], errName(err))
	case "readat":
		var n int
		var off int64
		fmt.Sscan(a[2], &n)
		fmt.Sscan(a[3], &off)
		b := make([]byte, n)
		k, err := r.files[a[1]].ReadAt(b, off)
		return fmt.Sprintf("%d %q %s", k, b[:k], errName(err))
	case "seek":
		var off int64
		var wh int
		fmt.Sscan(a[2], &off)
		fmt.Sscan(a[3], &wh)
		k, err := r.files[a[1]].Seek(off, wh)
		return fmt.Sprint(k, errName(err))
	case "trunc":
		var n int64
		fmt.Sscan(a[2], &n)
		return errName(r.files[a[1]].Truncate(n))
	case "close":
		return errName(r.files[a[1]].Close())
	case "sync":
		return errName(r.files[a[1]].Sync())
	case "fstat":
		fi, err := r.files[a[1]].Stat()
		if err != nil {
			return errName(err)
		}
		return fmt.Sprint(fi.Size(), fi.IsDir())
	case "stat":
		fi, err := realos.Stat(p(1))
		if err != nil {
			return errName(err)
		}
		if fi.IsDir() {
			return "dir"
		}
		return fmt.Sprint(fi.Size())
	case "remove":
		return errName(realos.Remove(p(1)))
	case "removeall":
		return errName(realos.RemoveAll(p(1)))
	case "rename":
		return errName(realos.Rename(p(1), p(2)))
	case "readdir":
		es, err := realos.ReadDir(p(1))
		var names []string
		for _, e := range es {
			names = append(names, fmt.Sprint(e.Name(), e.IsDir()))
		}
		return fmt.Sprint(names, errName(err))
	case "readfile":
		b, err := realos.ReadFile(p(1))
		return fmt.Sprintf("%q %s", b, errName(err))
	}
	return "?"
}

func flagsOf(l []string) int {
	f := 0
	for _, s := range l {
		switch s {
		case "RDONLY":
			f |= realos.O_RDONLY
		case "WRONLY":
			f |= realos.O_WRONLY
		case "RDWR":
			f |= realos.O_RDWR
		case "CREATE":
			f |= realos.O_CREATE
		case "TRUNC":
			f |= realos.O_TRUNC
		case "APPEND":
			f |= realos.O_APPEND
		case "EXCL":
			f |= realos.O_EXCL
		}
	}
	return f
}

var confScripts = [][]string{
	{"stat nope", "open a nope RDWR", "mkdir d", "mkdir d", "stat d", "open a d/f RDWR CREATE", "write a hello", "fstat a", "seek a 0 0", "read a 3", "read a 10", "read a 10", "close a", "close a", "stat d/f", "readfile d/f", "readdir d", "remove d", "remove d/f", "remove d", "remove d"},
	{"mkdir d", "open a d/f RDWR CREATE", "writeat a xyz 10", "fstat a", "readat a 5 8", "readat a 5 0", "readat a 4 13", "trunc a 4", "fstat a", "readat a 8 0", "trunc a 20", "readat a 4 16", "seek a 0 2", "write a END", "fstat a", "seek a -3 2", "read a 8", "sync a", "close a", "readfile d/f"},
	{"mkdir d", "open a d/f WRONLY CREATE", "write a abc", "read a 2", "close a", "open b d/f RDONLY", "write b zz", "read b 2", "trunc b 1", "close b", "open c d/f RDWR TRUNC", "fstat c", "close c", "open e d/f RDWR CREATE EXCL", "open g d/g RDWR CREATE EXCL", "close g", "readdir d"},
	{"mkdir d", "mkdir d/e", "open a d/e/f RDWR CREATE", "write a 1", "close a", "rename d/e d/h", "stat d/e", "stat d/h/f", "open b d/x RDWR CREATE", "write b 22", "close b", "rename d/x d/h/f", "readfile d/h/f", "rename d/nope d/y", "removeall d/h", "stat d/h", "removeall d/h", "readdir d", "open c d RDWR", "open c2 d RDONLY", "read c2 4", "close c2", "mkdir nope/sub", "open z d/h/zz RDWR CREATE"},
	{"mkdir d", "open a d/f RDWR CREATE APPEND", "write a ab", "seek a 0 0", "write a cd", "readat a 4 0", "close a", "open b d/f RDWR", "seek b 100 0", "read b 1", "write b Z", "fstat b", "readat b 3 99", "close b", "open c d/f/g RDWR CREATE", "stat d/f/g", "mkdir d/f/g", "remove d/f/g"},
}

func confScript(c *mc.Ctx, n int) {
	tmp, err := realos.MkdirTemp("", "vosconf")
	if err != nil {
		c.Violate("tmpdir", err.Error())
		return
	}
	defer realos.RemoveAll(tmp)
	realos.Mkdir(filepath.Join(tmp, "t"), 0o770)
	d := vos.NewDevice()
	d.MkdirAll("/t", 0o770)
	v := &vosSys{d: d, files: map[string]*vos.File{}}
	r := &realSys{root: tmp, files: map[string]*realos.File{}}
	for i, st := range confScripts[n] {
		a := safeDo(v, st)
		b := safeDo(r, st)
		c.Traces++
		if a != b {
			c.Violate("semantics-differ", fmt.Sprintf("script %d step %d %q: vos answers %q, the kernel answers %q", n, i, st, a, b))
			return
		}
	}
	c.Eval(fmt.Sprint("script", n), true)
	c.Outcome("script-conforms")
	c.Sample(map[string]any{"script": confScripts[n]})
}

func safeDo(f fsys, st string) (out string) {
	defer func() {
		if r := recover(); r != nil {
			out = "panic"
		}
	}()
	return f.do(st)
}
