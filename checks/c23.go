package checks

import (
	"fmt"
	"math"
	"reflect"
	"time"

	"github.com/alpacahq/marketstore/v4/utils"
	"github.com/alpacahq/marketstore/v4/utils/io"
	"github.com/alpacahq/marketstore/v4/verif/mc"
)

// C23 Scalar aggregates and gap detection are correct.

type c23Spec struct {
	Fn   string `json:"fn"`  // count|min|max|avg|gap
	Typ  string `json:"typ"` // column type (count/min/max/avg)
	Idx  []int  `json:"idx"` // indices into the type's value alphabet (scalar) / into the difference alphabet (gap)
	Thr  int    `json:"thr"` // gap threshold index
}

var c23Diffs = []int64{0, 1, 59, 60, 61, 3600}

// c23Vals: boundary alphabet per type without NaN/Inf (min/max/mean of unordered values is undefined).
func c23Vals(typ string) any {
	switch typ {
	case "f4":
		return []float32{0, 1, -1, 1.5, math.MaxFloat32, -math.MaxFloat32, math.SmallestNonzeroFloat32}
	case "f8":
		return []float64{0, 1, -1, 1.5, 3e38, -3e38, 16777217, 1e-300}
	}
	return boundaryVals(typ)
}

var c23Types = []string{"i1", "i2", "i4", "i8", "u1", "u2", "u4", "u8", "f4", "f8"}

func init() {
	mc.Def(mc.Check{
		ID:    "C23",
		Level: "exploration",
		Rule: "count/min/max/avg: one column of every numeric type, every tuple of length 0-3 (thorough 0-4) over the type's boundary alphabet, through AggRunner.Run; " +
			"gap: every epoch sequence of length 0-5 with consecutive differences from {0,1,59,60,61,3600} x thresholds from the same set. distinct by spec; non-trivial = length>=2",
		Assume:   []string{"NaN and infinities are outside the value alphabet (min/max/mean undefined)", "avg compared with tolerance 1e-6 * mean(|v|)"},
		QuickMax: 4 * time.Minute, ThorMax: 15 * time.Minute,
	}, c23Enum, c23Run)
}

func c23Enum(c *mc.Ctx, yield func(c23Spec)) {
	maxLen := 3
	if c.Thorough() {
		maxLen = 4
	}
	for _, fn := range []string{"count", "min", "max", "avg"} {
		for _, ty := range c23Types {
			n := lenOf(c23Vals(ty))
			var rec func(cur []int)
			rec = func(cur []int) {
				yield(c23Spec{Fn: fn, Typ: ty, Idx: append([]int{}, cur...)})
				if len(cur) == maxLen {
					return
				}
				for i := 0; i < n; i++ {
					rec(append(cur, i))
				}
			}
			rec(nil)
		}
	}
	for thr := range c23Diffs {
		var rec func(cur []int)
		rec = func(cur []int) {
			yield(c23Spec{Fn: "gap", Idx: append([]int{}, cur...), Thr: thr})
			if len(cur) == 4 {
				return
			}
			for i := range c23Diffs {
				rec(append(cur, i))
			}
		}
		yield(c23Spec{Fn: "gap", Idx: nil, Thr: -1 - thr}) // empty input (no rows at all)
		rec(nil)
	}
}

func c23Run(c *mc.Ctx, s c23Spec) {
	utils.InstanceConfig.Timezone = time.UTC
	tbk := *io.NewTimeBucketKey("S/1Min/T")
	if s.Fn == "gap" {
		c23Gap(c, s, tbk)
		return
	}
	alpha := reflect.ValueOf(c23Vals(s.Typ))
	col := reflect.MakeSlice(alpha.Type(), len(s.Idx), len(s.Idx))
	f32 := make([]float32, len(s.Idx))
	ep := make([]int64, len(s.Idx))
	for i, k := range s.Idx {
		col.Index(i).Set(alpha.Index(k))
		ep[i] = int64(1600000000 + 60*i)
		v := alpha.Index(k)
		switch v.Kind() {
		case reflect.Float32, reflect.Float64:
			f32[i] = float32(v.Float())
		case reflect.Int8, reflect.Int16, reflect.Int32, reflect.Int64:
			f32[i] = float32(v.Int())
		default:
			f32[i] = float32(v.Uint())
		}
	}
	cs := io.NewColumnSeries()
	cs.AddColumn("Epoch", ep)
	cs.AddColumn("V", col.Interface())
	var out *io.ColumnSeries
	var err error
	lc := lenClass(len(s.Idx))
	if p := safely(func() { out, err = c21Agg.Run([]string{s.Fn + "(V)"}, cs, tbk) }); p != "" {
		c.Violate("panic|"+s.Fn+"|"+s.Typ+"|"+lc, fmt.Sprintf("%s over a %s column of %d values panicked: %s", s.Fn, s.Typ, len(s.Idx), p))
		return
	}
	c.Eval(fmt.Sprint(s), len(s.Idx) >= 2)
	c.Outcome(s.Fn + "/" + lc)
	if err != nil {
		c.Violate("error|"+s.Fn+"|"+s.Typ+"|"+lc, err.Error())
		return
	}
	n := len(s.Idx)
	switch s.Fn {
	case "count":
		got, ok := out.GetColumn("Count").([]int64)
		if !ok || len(got) != 1 || got[0] != int64(n) {
			c.Violate("wrong|count|"+s.Typ+"|"+lc, fmt.Sprintf("count of %d rows = %v", n, out.GetColumn("Count")))
		}
	case "min", "max":
		if n == 0 {
			return // the property defines no min/max of nothing
		}
		name := map[string]string{"min": "Min", "max": "Max"}[s.Fn]
		got, ok := out.GetColumn(name).([]float32)
		want := f32[0]
		for _, v := range f32 {
			if s.Fn == "min" && v < want || s.Fn == "max" && v > want {
				want = v
			}
		}
		if !ok || len(got) != 1 || got[0] != want {
			c.Violate("wrong|"+s.Fn+"|"+s.Typ+"|"+lc, fmt.Sprintf("%s of %v (as float32 %v) = %v, want %g", s.Fn, col.Interface(), f32, out.GetColumn(name), want))
		}
	case "avg":
		if n == 0 {
			return
		}
		var sum, abs float64
		for _, v := range f32 {
			sum += float64(v)
			abs += math.Abs(float64(v))
		}
		want := sum / float64(n)
		tol := 1e-6*abs/float64(n) + 1e-45
		var gv float64
		switch g := out.GetColumn("Avg").(type) {
		case []float64:
			if len(g) == 1 {
				gv = g[0]
			} else {
				gv = math.NaN()
			}
		case []float32:
			if len(g) == 1 {
				gv = float64(g[0])
			} else {
				gv = math.NaN()
			}
		default:
			gv = math.NaN()
		}
		if math.IsNaN(gv) || math.Abs(gv-want) > tol {
			c.Violate("wrong|avg|"+s.Typ+"|"+lc, fmt.Sprintf("avg of %v = %v, want %g", f32, out.GetColumn("Avg"), want))
		}
	}
	if n > 0 {
		c.Sample(map[string]any{"fn": s.Fn, "type": s.Typ, "values": fmt.Sprint(col.Interface())})
	}
}

func c23Gap(c *mc.Ctx, s c23Spec, tbk io.TimeBucketKey) {
	thrIdx := s.Thr
	var ep []int64
	if thrIdx < 0 {
		thrIdx = -1 - thrIdx
	} else {
		ep = []int64{1600000000}
		for _, k := range s.Idx {
			ep = append(ep, ep[len(ep)-1]+c23Diffs[k])
		}
	}
	thr := c23Diffs[thrIdx]
	cs := io.NewColumnSeries()
	if ep == nil {
		ep = []int64{}
	}
	cs.AddColumn("Epoch", ep)
	v := make([]float32, len(ep))
	cs.AddColumn("V", v)
	var out *io.ColumnSeries
	var err error
	if p := safely(func() { out, err = c21Agg.Run([]string{fmt.Sprintf("gap('%dSec')", thr)}, cs, tbk) }); p != "" {
		c.Violate("panic|gap|"+lenClass(len(ep)), fmt.Sprintf("gap('%dSec') over epochs %v panicked: %s", thr, ep, p))
		return
	}
	c.Eval(fmt.Sprint(s), len(ep) >= 2)
	if err != nil {
		c.Violate("error|gap|"+lenClass(len(ep)), err.Error())
		return
	}
	var wantS, wantE, wantL []int64
	for i := 1; i < len(ep); i++ {
		if d := ep[i] - ep[i-1]; d > thr {
			wantS, wantE, wantL = append(wantS, ep[i-1]), append(wantE, ep[i]), append(wantL, d)
		}
	}
	c.Outcome(fmt.Sprintf("gap/found=%d", len(wantS)))
	gs, _ := out.GetColumn("Epoch").([]int64)
	ge, _ := out.GetColumn("End").([]int64)
	gl, _ := out.GetColumn("Length").([]int64)
	eq := func(a, b []int64) bool {
		if len(a) != len(b) {
			return false
		}
		for i := range a {
			if a[i] != b[i] {
				return false
			}
		}
		return true
	}
	if !eq(gs, wantS) || !eq(ge, wantE) || !eq(gl, wantL) {
		cls := "on-threshold"
		for i := 1; i < len(ep); i++ {
			if ep[i]-ep[i-1] != thr {
				cls = "other"
			}
		}
		c.Violate("wrong|gap|"+cls, fmt.Sprintf("gap threshold %d s over differences %v: reported starts %v lengths %v, want starts %v lengths %v", thr, diffsOf(ep), gs, gl, wantS, wantL))
	}
	if len(ep) > 2 {
		c.Sample(map[string]any{"fn": "gap", "threshold_s": thr, "differences": diffsOf(ep), "gaps_expected": len(wantS)})
	}
}

func diffsOf(ep []int64) []int64 {
	var d []int64
	for i := 1; i < len(ep); i++ {
		d = append(d, ep[i]-ep[i-1])
	}
	return d
}
