package checks

import (
	"fmt"
	"os"
	"sort"
	"strings"

	"github.com/alpacahq/marketstore/v4/verif/mc"
	"github.com/alpacahq/marketstore/v4/verif/rt/vos"
	"github.com/alpacahq/marketstore/v4/verif/rt/vrt"
	"github.com/alpacahq/marketstore/v4/verif/world"
)

// schedmc: stateless, deviation-bounded depth-first exploration of thread interleavings of the real
// code under the controlled scheduler (rt/vrt). An execution replays a prefix of choices and takes
// choice 0 (keep running the current thread; when it blocks the lowest-id enabled thread; timers
// only when nothing else can run) at every later choice point. A deviation is any non-zero choice.

// scenario is one harness: threads + environment + oracle.
type scenario struct {
	races bool // data races (happens-before, rt/vrt/hb.go) are violations of the property this scenario belongs to
	name  string
	cfg   func(*vrt.Sched)
	body  func(x *execCtx) // runs as thread "main"
	judge func(x *execCtx, sch *vrt.Sched) []mc.Violation
}

// execCtx carries the observations of one execution.
type execCtx struct {
	obs    []string       // ordered observations (for determinism check and samples)
	data   map[string]any // harness-specific
	dev    *vos.Device
	w      *world.World
	failed string
}

func (x *execCtx) note(f string, a ...any) { x.obs = append(x.obs, fmt.Sprintf(f, a...)) }

type schedSpec struct {
	Scen   int   `json:"scenario"`
	Bound  int   `json:"bound"`            // deviation bound of the whole exploration
	Prefix []int `json:"prefix,omitempty"` // root of the subtree explored by this case
	Single bool  `json:"single,omitempty"` // explore nothing below: just this one schedule (replay form)
}

// conflictSet: objects accessed by >= 2 threads with at least one writer (persistent per process;
// the exploration of a subtree is repeated until the set stops growing).
type conflictSet struct {
	acc  map[string]map[string]bool // object -> thread -> wrote
	grew bool
	// racy: access sites ("var@file:line") that took part in a happens-before race in some execution of the
	// discovery pass; accesses at these sites are scheduling points (so the EFFECTS of the race are explored
	// within the bound). Frozen after discovery: choice numbering must not change during the exploration.
	racy   map[string]bool
	frozen bool
}

func (cs *conflictSet) noteRaces(sch *vrt.Sched) {
	if cs.frozen {
		return
	}
	for _, r := range sch.Races {
		for _, st := range []string{r.Var + "@" + r.SiteA, r.Var + "@" + r.SiteB} {
			if !cs.racy[st] {
				cs.racy[st] = true
				cs.grew = true
			}
		}
	}
}

func (cs *conflictSet) shared(kind, obj, thread string) bool {
	m := cs.acc[obj]
	if m == nil {
		m = map[string]bool{}
		cs.acc[obj] = m
	}
	wr := kind != "dev-r"
	before := cs.conflict(obj)
	if old, ok := m[thread]; !ok || (wr && !old) {
		m[thread] = old || wr
	}
	after := cs.conflict(obj)
	if after && !before {
		cs.grew = true
	}
	return after
}

func (cs *conflictSet) conflict(obj string) bool {
	m := cs.acc[obj]
	if len(m) < 2 {
		return false
	}
	for _, w := range m {
		if w {
			return true
		}
	}
	return false
}

var conflictSets = map[string]*conflictSet{}

func threadClass(name string) string {
	// thread names of spawned goroutines carry ids (name#parent.n): keep the callee name only
	if i := strings.Index(name, "#"); i >= 0 {
		return name[:i]
	}
	return name
}

// runSchedule executes one schedule of a scenario.
func runSchedule(sc *scenario, prefix []int, opts [][]string) (*execCtx, *vrt.Sched) {
	cs := conflictSets[sc.name]
	if cs == nil {
		cs = &conflictSet{acc: map[string]map[string]bool{}, racy: map[string]bool{}}
		conflictSets[sc.name] = cs
	}
	x := &execCtx{data: map[string]any{}}
	x.dev = world.FreshDevice()
	sch := vrt.Run(prefix, func(s *vrt.Sched) {
		s.PrefixOpts = opts
		s.MaxStep = 100000
		s.SharedObj = func(kind, obj, thread string) bool {
			if kind == "mem" {
				return true
			}
			return cs.shared(kind, obj, threadClass(thread))
		}
		s.MemPoint = func(site string) bool { return cs.racy[site] }
		if sc.cfg != nil {
			sc.cfg(s)
		}
	}, func() { sc.body(x) })
	cs.noteRaces(sch)
	return x, sch
}

func choicesOf(sch *vrt.Sched) ([]int, [][]string) {
	ch := make([]int, len(sch.Points))
	op := make([][]string, len(sch.Points))
	for i, p := range sch.Points {
		ch[i], op[i] = p.Chosen, p.Options
	}
	return ch, op
}

func devCount(prefix []int) int {
	n := 0
	for _, c := range prefix {
		if c != 0 {
			n++
		}
	}
	return n
}

func schedDescribe(sch *vrt.Sched) string {
	var sb strings.Builder
	for i, p := range sch.Points {
		if p.Chosen != 0 {
			fmt.Fprintf(&sb, "at choice point %d (step %d) ran %q instead of %q; ", i, p.Step, p.Options[p.Chosen], p.Options[0])
		}
	}
	if sb.Len() == 0 {
		return "default schedule"
	}
	return sb.String()
}

// schedEnum yields the root execution and one case per first-level alternative of every scenario.
func schedEnum(scens []*scenario, bound func(c *mc.Ctx, scen int) int) func(c *mc.Ctx, yield func(schedSpec)) {
	return func(c *mc.Ctx, yield func(schedSpec)) {
		for si, sc := range scens {
			if c.Expired() {
				break // wall-clock guard: the remaining scenarios are not started (reported as exhaustive:false)
			}
			b := bound(c, si)
			// discovery pre-pass (identical in every shard process): the default schedule and all its
			// one-deviation neighbours are executed until the conflict set stops growing
			var root *vrt.Sched
			for pass := 0; pass < 5; pass++ {
				_, root = runSchedule(sc, nil, nil)
				cs := conflictSets[sc.name]
				cs.grew = false
				if b > 0 {
					ch, op := choicesOf(root)
					for i, p := range root.Points {
						for alt := 1; alt < len(p.Options); alt++ {
							runSchedule(sc, append(append([]int{}, ch[:i]...), alt), op[:i+1])
						}
					}
				}
				if !cs.grew {
					break
				}
			}
			conflictSets[sc.name].frozen = true
			_, root = runSchedule(sc, nil, nil)
			yield(schedSpec{Scen: si, Bound: b, Single: true})
			if b == 0 {
				continue
			}
			ch, _ := choicesOf(root)
			for i, p := range root.Points {
				if !p.Worthy {
					continue
				}
				for alt := 1; alt < len(p.Options); alt++ {
					yield(schedSpec{Scen: si, Bound: b, Prefix: append(append([]int{}, ch[:i]...), alt)})
				}
			}
		}
	}
}

func schedRun(scens []*scenario, prop string) func(c *mc.Ctx, s schedSpec) {
	return func(c *mc.Ctx, s schedSpec) {
		sc := scens[s.Scen]
		cs := conflictSets[sc.name]
		one := func(prefix []int, opts [][]string) *vrt.Sched {
			c.Doing = fmt.Sprintf("schedule %v of %q", prefix, sc.name)
			x, sch := runSchedule(sc, prefix, opts)
			c.Doing += " (executed; judging)"
			c.Traces++
			c.Transitions += int64(sch.Steps)
			c.Count("executions", 1)
			where := fmt.Sprintf("scenario %q, schedule with %d deviation(s): %s", sc.name, devCount(prefix), schedDescribe(sch))
			rep := schedSpec{Scen: s.Scen, Bound: s.Bound, Prefix: append([]int{}, prefix...), Single: true}
			if sch.Diverged != "" {
				c.Notes = append(c.Notes, "NONDETERMINISTIC: replay of a recorded prefix diverged in "+sc.name+": "+sch.Diverged)
				return sch
			}
			if sch.Livelock {
				c.ViolateWith("livelock|"+sc.name, where+": the execution did not finish within the step budget", rep)
			}
			for _, p := range sch.Panics {
				c.ViolateWith("panic|"+panicClass(p.Value, p.Stack), fmt.Sprintf("%s: thread %s panicked: %s @ %s", where, p.Thread, p.Value, p.Stack), rep)
			}
			if sch.Deadlock {
				c.ViolateWith("deadlock|"+sc.name, where+": deadlock: "+sch.DeadInfo, rep)
			}
			if x.failed != "" {
				c.ViolateWith("harness-failed|"+sc.name, where+": "+x.failed, rep)
			}
			c.Count("hb_races_seen", int64(len(sch.Races)))
			if sc.races || os.Getenv("VERIF_ALLRACES") != "" { // the variable is a development aid: list races in scenarios of other properties
				for _, r := range sch.Races {
					kinds := []string{r.KindA, r.KindB}
					sort.Strings(kinds)
					c.ViolateWith("data-race|"+r.Var+"|"+kinds[0]+"-"+kinds[1], fmt.Sprintf("%s: data race (no happens-before order between the two accesses) on %s: %s at %s by thread %s / %s at %s by thread %s",
						where, r.Var, r.KindA, r.SiteA, r.ThrA, r.KindB, r.SiteB, r.ThrB), rep)
				}
			}
			vs := sc.judge(x, sch)
			for _, v := range vs {
				c.ViolateWith(v.Sig, where+": "+v.What, rep)
			}
			out := "ok"
			if len(vs) > 0 || len(sch.Panics) > 0 || sch.Deadlock {
				out = "violating"
			}
			c.Outcome(out + "/" + fmt.Sprint(x.data["outcome"]))
			c.State(fmt.Sprint(sc.name, fsHash(x.dev.FS()), x.obs))
			c.Eval(fmt.Sprint(s.Scen, prefix), devCount(prefix) > 0)
			if devCount(prefix) <= 1 && len(c.Samples) < 3 {
				c.Sample(map[string]any{"scenario": sc.name, "schedule": schedDescribe(sch), "choice_points": len(sch.Points), "steps": sch.Steps, "observations": x.obs})
			}
			return sch
		}
		if s.Single {
			root := one(s.Prefix, nil)
			if len(s.Prefix) == 0 && !c.Replay {
				// determinism: the default schedule twice must give identical choice points and observations
				x1, s1 := runSchedule(sc, nil, nil)
				x2, s2 := runSchedule(sc, nil, nil)
				_, o1 := choicesOf(s1)
				_, o2 := choicesOf(s2)
				if fmt.Sprint(o1) != fmt.Sprint(o2) || fmt.Sprint(x1.obs) != fmt.Sprint(x2.obs) {
					d := ""
					for i := 0; i < len(o1) && i < len(o2); i++ {
						if fmt.Sprint(o1[i]) != fmt.Sprint(o2[i]) {
							d = fmt.Sprintf("choice point %d: %v vs %v", i, o1[i], o2[i])
							break
						}
					}
					c.Notes = append(c.Notes, fmt.Sprintf("NONDETERMINISTIC: two runs of the default schedule of %s differ (%d vs %d points; %s; obs %v vs %v)", sc.name, len(o1), len(o2), d, x1.obs, x2.obs))
				}
				_ = root
			}
			return
		}
		// explore the subtree below s.Prefix, repeating until the conflict set is stable
		for pass := 0; pass < 4; pass++ {
			if cs != nil {
				cs.grew = false
			}
			var rec func(prefix []int, opts [][]string)
			rec = func(prefix []int, opts [][]string) {
				if c.Expired() {
					return
				}
				sch := one(prefix, opts)
				if sch.Diverged != "" {
					return
				}
				if devCount(prefix) >= s.Bound {
					return
				}
				ch, op := choicesOf(sch)
				for i := len(prefix); i < len(sch.Points); i++ {
					if !sch.Points[i].Worthy {
						continue
					}
					for alt := 1; alt < len(sch.Points[i].Options); alt++ {
						rec(append(append([]int{}, ch[:i]...), alt), op[:i+1])
					}
				}
			}
			rec(s.Prefix, nil)
			cs = conflictSets[sc.name]
			if cs == nil || !cs.grew {
				break
			}
			c.Count("conflict_set_repeats", 1)
		}
	}
}

// panicClass: the panic message without numbers/addresses plus the innermost repository function.
func panicClass(val, stack string) string {
	fn := ""
	for _, part := range strings.Split(stack, " | ") {
		if strings.HasPrefix(part, "github.com/alpacahq/marketstore/v4/") && !strings.Contains(part, "/verif/") {
			fn = strings.TrimPrefix(part, "github.com/alpacahq/marketstore/v4/")
			if i := strings.LastIndex(fn, "("); i > 0 {
				fn = fn[:i]
			}
			break
		}
	}
	return errClass(fmt.Errorf("%s", val)) + "@" + fn
}
