package checks

import (
	"fmt"
	"sort"
	"time"

	"github.com/alpacahq/marketstore/v4/verif/mc"
	"github.com/alpacahq/marketstore/v4/verif/world"
)

// C08 Fixed-length buckets behave like last-writer-wins interval maps.

type c08Spec struct {
	TF     string  `json:"tf"`
	Typ    string  `json:"typ,omitempty"`    // "" = tagged int64 payload; else boundary-value pass of that type ("mixed" = 3 columns)
	Create bool    `json:"create,omitempty"` // bucket created explicitly before the first write
	Big    int     `json:"big,omitempty"` // >0: one request of 2*Big rows: Big intervals in a scrambled order, then all of them again (re-scrambled) with new values
	Hist   [][]int `json:"hist"`             // requests; each entry = slot*2 + (1 if written at an instant inside the interval)
}

const c08Year = 2020 // leap year; Y+1 = 2021

// c08Slots returns the slot alphabet (interval start instants) for a timeframe.
func c08Slots(tf time.Duration) []time.Time {
	y0 := time.Date(c08Year, 1, 1, 0, 0, 0, 0, time.UTC)
	y1 := time.Date(c08Year+1, 1, 1, 0, 0, 0, 0, time.UTC)
	mid := intervalStart(time.Date(c08Year, 7, 1, 12, 0, 0, 0, time.UTC), tf, time.UTC)
	return []time.Time{
		y0,         // 0 first interval of Y
		y0.Add(tf), // 1 second interval of Y
		intervalStart(time.Date(c08Year, 2, 29, 12, 0, 0, 0, time.UTC), tf, time.UTC), // 2 leap day
		mid,         // 3 mid-year
		y1.Add(-tf), // 4 last interval of Y
		y1,          // 5 first interval of Y+1
		y1.Add(tf),  // 6 second interval of Y+1 (same in-year index as slot 1)
		mid.Add(tf), // 7 neighbour of mid-year
	}
}

func c08Class(t time.Time, tf time.Duration, all []time.Time) string {
	y0 := time.Date(t.Year(), 1, 1, 0, 0, 0, 0, time.UTC)
	y1 := time.Date(t.Year()+1, 1, 1, 0, 0, 0, 0, time.UTC)
	switch {
	case t.Equal(y0):
		return "first-of-year"
	case t.Equal(y1.Add(-tf)):
		return "last-of-year"
	case t.Month() == 2 && t.Day() == 29:
		return "leap-day"
	}
	for _, o := range all {
		if o.Year() != t.Year() && o.Sub(time.Date(o.Year(), 1, 1, 0, 0, 0, 0, time.UTC)) == t.Sub(y0) {
			return "cross-year-same-index"
		}
	}
	return "other"
}

func c08Tuples(n, maxLen int) [][]int {
	var out [][]int
	var rec func(cur []int)
	rec = func(cur []int) {
		if len(cur) > 0 {
			out = append(out, append([]int{}, cur...))
		}
		if len(cur) == maxLen {
			return
		}
		for i := 0; i < n; i++ {
			rec(append(cur, i))
		}
	}
	rec(nil)
	sort.SliceStable(out, func(i, j int) bool { return len(out[i]) < len(out[j]) })
	return out
}

func init() {
	mc.Def(mc.Check{
		ID:    "C08",
		Level: "exploration",
		Rule: "per timeframe: every history of <=2 (thorough <=3) write requests, each an ordered tuple of rows over an 8-slot alphabet " +
			"(first/second/leap-day/mid/last interval of 2020, first/second of 2021, neighbour) incl. unsorted and duplicate tuples and rows stamped inside the interval; " +
			"plus a boundary-value pass per column type; after every request the all-time query is compared with a last-writer-wins interval map. " +
			"non-trivial = history touches >=2 distinct slots or repeats a slot; distinct by (timeframe, history)",
		Assume: []string{"vos device model (validated by vos-conformance)", "timezone UTC", "BackgroundSync=false: flush happens inline in the write request",
			"WriteChannelCommandDepth scaled to 256"},
		QuickMax: 5 * time.Minute, ThorMax: 40 * time.Minute,
	}, c08Enum, c08Run)
}

func c08Enum(c *mc.Ctx, yield func(c08Spec)) {
	for _, tf := range AllTF() {
		d := tfDur(tf)
		small := d < time.Minute // all-time queries on sub-minute files scan hundreds of MB: smaller alphabet
		// single requests: tuples over all 16 (slot, inside) symbols up to length 2 (3 thorough)
		maxLen := 2
		if c.Thorough() {
			maxLen = 3
		}
		nsym := 16
		if small {
			nsym = 12 // slots 0..5 with both stampings
			if !c.Thorough() {
				maxLen = 1
			}
		}
		var reqs [][]int
		if d == time.Second {
			// 1Sec: interval == 1 s, "inside" stamping is impossible with second-resolution epochs
			for _, t := range c08Tuples(nsym/2, maxLen) {
				r := make([]int, len(t))
				for i, s := range t {
					r[i] = s * 2
				}
				reqs = append(reqs, r)
			}
		} else {
			reqs = c08Tuples(nsym, maxLen)
		}
		for _, r := range reqs {
			yield(c08Spec{TF: tf, Hist: [][]int{r}})
		}
		// three-row requests that move between the two years and back (the writer switches year files
		// inside one request): all 64 tuples over first/second interval of 2020 and of 2021
		if !c.Thorough() && (maxLen < 3) {
			ys := []int{0, 2, 10, 12}
			for _, a := range ys {
				for _, b := range ys {
					for _, cc := range ys {
						yield(c08Spec{TF: tf, Hist: [][]int{{a, b, cc}}})
					}
				}
			}
		}
		// histories of 2 requests over a reduced request set: tuples of length <=2 over the 8 on-start symbols
		// (thorough: over 6 slots with both stampings)
		var r2 [][]int
		base := 8
		if small {
			base = 6
		}
		for _, t := range c08Tuples(base, 2) {
			r := make([]int, len(t))
			for i, s := range t {
				r[i] = s * 2
				if d > time.Second && (i+s)%3 == 0 {
					r[i]++ // sprinkle inside-interval stampings deterministically
				}
			}
			r2 = append(r2, r)
		}
		if small && !c.Thorough() {
			r2 = r2[:base] // single-row requests only
		}
		for _, a := range r2 {
			for _, b := range r2 {
				yield(c08Spec{TF: tf, Hist: [][]int{a, b}})
			}
		}
		if c.Thorough() {
			// three requests of single rows over 6 slots, and explicit-create variants
			var r1 [][]int
			for s := 0; s < 6; s++ {
				r1 = append(r1, []int{s * 2})
			}
			for _, a := range r1 {
				for _, b := range r1 {
					for _, cc := range r1 {
						yield(c08Spec{TF: tf, Hist: [][]int{a, b, cc}})
					}
					yield(c08Spec{TF: tf, Create: true, Hist: [][]int{a, b}})
				}
			}
		}
	}
	// large requests: more than 100 write commands for one year file in a single flush take the batched
	// write path (executor/wal.go writeFixedBuffer); every interval is written twice, non-consecutively
	for _, tf := range []string{"1Min", "1H", "1D"} {
		for _, n := range []int{55, 110} {
			yield(c08Spec{TF: tf, Big: n})
		}
	}
	// boundary-value pass: every column type (and a mixed 3-column schema) on 1Min and 1D
	for _, tf := range []string{"1Min", "1D"} {
		for _, typ := range append(append([]string{}, allTypes...), "mixed") {
			yield(c08Spec{TF: tf, Typ: typ, Hist: [][]int{{6}}})
		}
	}
}

type c08Row struct {
	t   time.Time
	val []any
}

func c08Run(c *mc.Ctx, s c08Spec) {
	tf := tfDur(s.TF)
	key := "T/" + s.TF + "/F"
	world.FreshDevice()
	w, obs := world.Start(world.Config{BackgroundSync: false})
	if !obs.OK() {
		c.Violate("startup-failed|"+s.TF, "fresh startup failed: "+obs.String())
		return
	}
	defer w.Close()
	slots := c08Slots(tf)
	if s.Typ != "" {
		c08Boundary(c, w, s, key, tf, slots)
		return
	}
	if s.Create {
		if err := w.Create(key, []string{"V"}, []string{"i8"}, false); err != nil {
			c.Violate("create-error|"+s.TF, "create failed: "+err.Error())
			return
		}
	}
	if s.Big > 0 {
		c08Big(c, w, s, key, tf, slots)
		return
	}
	ref := map[int64]int64{} // interval start (unix) -> value
	var written []time.Time
	distinctSlots := map[int]bool{}
	repeat := false
	for ri, req := range s.Hist {
		var times []time.Time
		var vals []int64
		for k, sym := range req {
			slot, inside := sym/2, sym%2 == 1
			if distinctSlots[slot] {
				repeat = true
			}
			distinctSlots[slot] = true
			t := slots[slot]
			if inside {
				off := tf / 2
				if off < time.Second {
					off = time.Second
				}
				off = off.Truncate(time.Second)
				if off >= tf {
					off = 0
				}
				t = t.Add(off)
			}
			v := int64((ri+1)*100 + k + 1)
			times = append(times, t)
			vals = append(vals, v)
		}
		var werr error
		pan := world.Safely(func() { werr = w.WriteCS(key, csFixed(times, []string{"V"}, []any{vals}), false) })
		if pan != "" {
			c.Violate("panic|write|"+s.TF, "write panicked: "+pan)
			return
		}
		if werr != nil {
			c.Violate("write-error|"+s.TF+"|"+errClass(werr), fmt.Sprintf("write request %d rejected: %v", ri, werr))
			return
		}
		for k := range times {
			st := slots[req[k]/2]
			ref[st.Unix()] = vals[k]
			written = append(written, st)
		}
		// all-time query after every request
		var tab *world.Table
		var qerr error
		pan = world.Safely(func() { tab, qerr = w.QueryAll(key) })
		if pan != "" {
			c.Violate("panic|query|"+s.TF, "query panicked: "+pan)
			return
		}
		if qerr != nil {
			c.Violate("query-error|"+s.TF+"|"+errClass(qerr), fmt.Sprintf("all-time query failed after request %d: %v", ri, qerr))
			return
		}
		if sig, what := c08Compare(tab, ref, tf, s.TF, written); sig != "" {
			c.Violate(sig, fmt.Sprintf("after request %d of %v: %s; got %s", ri, s.Hist, what, tab))
			c.Outcome("differs")
			break
		}
	}
	c.Eval(fmt.Sprint(s.TF, s.Hist, s.Create), len(distinctSlots) >= 2 || repeat)
	c.Outcome(fmt.Sprintf("rows=%d", len(ref)))
	c.Sample(map[string]any{"tf": s.TF, "history": s.Hist, "expected_rows": len(ref)})
}

// c08Big: one request that writes Big intervals twice (scrambled orders, different values).
func c08Big(c *mc.Ctx, w *world.World, s c08Spec, key string, tf time.Duration, slots []time.Time) {
	n := s.Big
	base := slots[2] // leap day: far from both year edges
	var times []time.Time
	var vals []int64
	ref := map[int64]int64{}
	var written []time.Time
	for pass, mul := range []int{7, 13} { // i -> i*mul mod p is a permutation of 0..p-1 for prime p > mul
		p := 113
		for i := 0; i < p; i++ {
			j := (i * mul) % p
			if j >= n {
				continue
			}
			t := base.Add(time.Duration(j) * tf)
			v := int64(pass*1000 + j + 1)
			times = append(times, t)
			vals = append(vals, v)
			ref[t.Unix()] = v
			written = append(written, t)
		}
	}
	var werr error
	if pan := world.Safely(func() { werr = w.WriteCS(key, csFixed(times, []string{"V"}, []any{vals}), false) }); pan != "" {
		c.Violate("panic|write|"+s.TF, "write panicked: "+pan)
		return
	}
	if werr != nil {
		c.Violate("write-error|"+s.TF+"|"+errClass(werr), fmt.Sprintf("large write request rejected: %v", werr))
		return
	}
	var tab *world.Table
	var qerr error
	if pan := world.Safely(func() { tab, qerr = w.QueryAll(key) }); pan != "" {
		c.Violate("panic|query|"+s.TF, "query panicked: "+pan)
		return
	}
	if qerr != nil {
		c.Violate("query-error|"+s.TF+"|"+errClass(qerr), "all-time query failed after the large request: "+qerr.Error())
		return
	}
	if sig, what := c08Compare(tab, ref, tf, s.TF, written); sig != "" {
		c.Violate(sig+"|large-request", fmt.Sprintf("one request writing %d intervals twice (%d rows): %s", n, len(times), what))
		c.Outcome("differs")
	}
	c.Eval(fmt.Sprint(s.TF, "big", n), true)
	c.Outcome(fmt.Sprintf("rows=%d", len(ref)))
	c.Sample(map[string]any{"tf": s.TF, "large_request_rows": len(times), "expected_rows": len(ref)})
}

func c08Compare(tab *world.Table, ref map[int64]int64, tf time.Duration, tfs string, written []time.Time) (string, string) {
	ei, vi := tab.Col("Epoch"), tab.Col("V")
	if ei < 0 || vi < 0 {
		if len(ref) == 0 && tab.Len() == 0 {
			return "", ""
		}
		return "missing-column|" + tfs, fmt.Sprintf("result lacks Epoch/V columns: %v", tab.Cols)
	}
	got := map[int64][]int64{}
	var order []int64
	for _, r := range tab.Rows {
		e := r[ei].(int64)
		got[e] = append(got[e], r[vi].(int64))
		order = append(order, e)
	}
	cls := func(e int64) string { return c08Class(time.Unix(e, 0).UTC(), tf, written) }
	var exp []int64
	for e := range ref {
		exp = append(exp, e)
	}
	sort.Slice(exp, func(i, j int) bool { return exp[i] < exp[j] })
	for _, e := range exp {
		if len(got[e]) == 0 {
			return "missing-row|" + tfs + "|" + cls(e), fmt.Sprintf("interval %s written but not returned", time.Unix(e, 0).UTC().Format(time.RFC3339))
		}
	}
	var ge []int64
	for e := range got {
		ge = append(ge, e)
	}
	sort.Slice(ge, func(i, j int) bool { return ge[i] < ge[j] })
	for _, e := range ge {
		if _, ok := ref[e]; !ok {
			k := "unwritten"
			for _, wt := range written {
				if d := time.Unix(e, 0).Sub(wt); d > 0 && d < tf {
					k = "not-interval-start"
				}
			}
			return "extra-row|" + tfs + "|" + k, fmt.Sprintf("row at %s returned but never written (or wrongly stamped)", time.Unix(e, 0).UTC().Format(time.RFC3339))
		}
	}
	for _, e := range exp {
		if len(got[e]) > 1 {
			return "duplicate-row|" + tfs + "|" + cls(e), fmt.Sprintf("interval %s returned %d times", time.Unix(e, 0).UTC().Format(time.RFC3339), len(got[e]))
		}
		if got[e][0] != ref[e] {
			return "wrong-value|" + tfs + "|" + cls(e), fmt.Sprintf("interval %s holds %d, last write was %d", time.Unix(e, 0).UTC().Format(time.RFC3339), got[e][0], ref[e])
		}
	}
	for i := 1; i < len(order); i++ {
		if order[i] < order[i-1] {
			return "wrong-order|" + tfs, "rows not in ascending time order"
		}
	}
	return "", ""
}

// c08Boundary writes one row per boundary value of a column type into consecutive mid-year intervals
// and expects the same values back.
func c08Boundary(c *mc.Ctx, w *world.World, s c08Spec, key string, tf time.Duration, slots []time.Time) {
	types := []string{s.Typ}
	names := []string{"V"}
	if s.Typ == "mixed" {
		types = []string{"u1", "f8", "i2"}
		names = []string{"A", "B", "C"}
	}
	var cols []any
	n := 0
	for _, ty := range types {
		bv := boundaryVals(ty)
		cols = append(cols, bv)
		if l := lenOf(bv); n == 0 || l < n {
			n = l
		}
	}
	for i := range cols {
		cols[i] = sliceTo(cols[i], n)
	}
	var times []time.Time
	for i := 0; i < n; i++ {
		times = append(times, slots[3].Add(time.Duration(i)*tf))
	}
	var werr error
	if pan := world.Safely(func() { werr = w.WriteCS(key, csFixed(times, names, cols), false) }); pan != "" {
		c.Violate("panic|write|"+s.TF+"|"+s.Typ, "write panicked: "+pan)
		return
	}
	if werr != nil {
		c.Violate("write-error|"+s.TF+"|"+s.Typ, "write rejected: "+werr.Error())
		return
	}
	tab, qerr := w.QueryAll(key)
	if qerr != nil {
		c.Violate("query-error|"+s.TF+"|"+s.Typ, "query failed: "+qerr.Error())
		return
	}
	c.Eval(fmt.Sprint("boundary", s.TF, s.Typ), true)
	c.Outcome("boundary-rows=" + fmt.Sprint(tab.Len()))
	if tab.Len() != n {
		c.Violate("missing-row|"+s.TF+"|type:"+s.Typ, fmt.Sprintf("wrote %d rows, got %d: %s", n, tab.Len(), tab))
		return
	}
	for ci, nm := range names {
		k := tab.Col(nm)
		if k < 0 {
			c.Violate("missing-column|"+s.TF+"|type:"+s.Typ, "column "+nm+" not returned")
			return
		}
		for r := 0; r < n; r++ {
			want := indexOf(cols[ci], r)
			if !sameVal(tab.Rows[r][k], want) {
				c.Violate("wrong-value|type:"+types[ci], fmt.Sprintf("%s: ", s.TF)+fmt.Sprintf("column %s row %d: wrote %v, read %v", nm, r, world.FmtVal(want), world.FmtVal(tab.Rows[r][k])))
				return
			}
		}
		if e := tab.Rows[0][tab.Col("Epoch")].(int64); e != times[0].Unix() {
			c.Violate("wrong-epoch|"+s.TF+"|type:"+s.Typ, fmt.Sprintf("epoch %d, want %d", e, times[0].Unix()))
			return
		}
	}
	c.Sample(map[string]any{"tf": s.TF, "boundary_type": s.Typ, "rows": n})
}
