package checks

import (
	"fmt"
	"sort"
	"strings"
	"time"

	"github.com/alpacahq/marketstore/v4/plugins/trigger"
	"github.com/alpacahq/marketstore/v4/utils/io"
	"github.com/alpacahq/marketstore/v4/verif/mc"
	"github.com/alpacahq/marketstore/v4/verif/rt/vrt"
	"github.com/alpacahq/marketstore/v4/verif/world"
)

// C32 Every flushed write reaches matching triggers exactly once.

var c32Buckets = []string{"A/1H/X", "AA/1H/X", "B/1H/X", "A/1D/X"}
var c32Patterns = []string{"A/1H/X", "*/1H/X", "B/*/X", "*/*/*"}

// globRef: the pattern is matched component-wise against the start of the key path; '*' matches one component.
func globRef(pattern, keyPath string) bool {
	pp, kp := strings.Split(pattern, "/"), strings.Split(keyPath, "/")
	if len(kp) < len(pp) {
		return false
	}
	for i, p := range pp {
		if p != "*" && p != kp[i] {
			return false
		}
	}
	return true
}

type c32Delivery struct {
	pattern string
	key     string
	index   int64
	tag     int32
}

type recTrigger struct {
	pattern string
	sink    *[]c32Delivery
}

func (t *recTrigger) Fire(keyPath string, records []trigger.Record) {
	for i := range records {
		r := records[i]
		var tag int32
		if p := r.Payload(); len(p) >= 4 {
			tag = io.ToInt32(p[:4])
		}
		*t.sink = append(*t.sink, c32Delivery{t.pattern, keyPath, r.Index(), tag})
	}
}

func c32Matchers(sink *[]c32Delivery) []*trigger.Matcher {
	var ms []*trigger.Matcher
	for _, p := range c32Patterns {
		ms = append(ms, trigger.NewMatcher(&recTrigger{p, sink}, p))
	}
	return ms
}

type c32Write struct {
	bucket int
	hour   int
	tag    int32
}

func c32Expected(ws []c32Write) []string {
	var exp []string
	for _, w := range ws {
		key := c32Buckets[w.bucket] + "/2021.bin"
		t := time.Date(2021, 3, 1, w.hour, 0, 0, 0, time.UTC)
		if strings.Contains(key, "/1D/") {
			t = time.Date(2021, 3, 1+w.hour, 0, 0, 0, 0, time.UTC)
		}
		tf := time.Hour
		if strings.Contains(key, "/1D/") {
			tf = 24 * time.Hour
		}
		idx := io.TimeToIndex(t, tf)
		for _, p := range c32Patterns {
			if globRef(p, key) {
				exp = append(exp, fmt.Sprintf("%s <- %s idx=%d tag=%d", p, key, idx, w.tag))
			}
		}
	}
	sort.Strings(exp)
	return exp
}

func c32Do(w *world.World, wr c32Write) error {
	key := c32Buckets[wr.bucket]
	t := time.Date(2021, 3, 1, wr.hour, 0, 0, 0, time.UTC)
	if strings.Contains(key, "/1D/") {
		t = time.Date(2021, 3, 1+wr.hour, 0, 0, 0, 0, time.UTC)
	}
	return w.WriteCS(key, csFixed([]time.Time{t}, []string{"V"}, []any{[]int32{wr.tag}}), false)
}

func c32Compare(got []c32Delivery, ws []c32Write) []mc.Violation {
	var g []string
	for _, d := range got {
		g = append(g, fmt.Sprintf("%s <- %s idx=%d tag=%d", d.pattern, d.key, d.index, d.tag))
	}
	sort.Strings(g)
	exp := c32Expected(ws)
	cnt := func(l []string) map[string]int {
		m := map[string]int{}
		for _, s := range l {
			m[s]++
		}
		return m
	}
	gc, ec := cnt(g), cnt(exp)
	var vs []mc.Violation
	for s, n := range gc {
		pat := strings.SplitN(s, " <- ", 2)[0]
		switch {
		case ec[s] == 0:
			key := strings.Fields(strings.SplitN(s, " <- ", 2)[1])[0]
			cls := "wrong-record"
			if !globRef(pat, key) {
				cls = "non-matching-bucket"
			}
			vs = append(vs, mc.Violation{Sig: "delivered-to-nonmatching|" + cls + "|pattern:" + pat, What: fmt.Sprintf("trigger with pattern %q received %s, which no write to a matching bucket produced (expected deliveries: %v)", pat, s, exp)})
		case n > ec[s]:
			vs = append(vs, mc.Violation{Sig: "duplicate-delivery|pattern:" + pat, What: fmt.Sprintf("delivery %s happened %d times, expected %d", s, n, ec[s])})
		}
	}
	for s, n := range ec {
		if gc[s] < n {
			pat := strings.SplitN(s, " <- ", 2)[0]
			vs = append(vs, mc.Violation{Sig: "missed-delivery|pattern:" + pat, What: fmt.Sprintf("delivery %s expected %d time(s), happened %d (got %v)", s, n, gc[s], g)})
		}
	}
	return vs
}

// ---- sequential part ----

type c32Spec struct {
	Hist []int `json:"hist"` // each write: bucket*2 + (hour selector)
}

// ---- concurrent part ----

func c32Scenario() *scenario {
	w1 := []c32Write{{0, 10, 100}}
	w2 := []c32Write{{1, 10, 200}, {2, 10, 201}}
	return &scenario{
		name: "SyncWAL + trigger dispatcher + two writers (A; AA then B) then graceful shutdown",
		body: func(x *execCtx) {
			vrt.Branching(false)
			var sink []c32Delivery
			w, obs := world.Start(world.Config{BackgroundSync: true, Triggers: c32Matchers(&sink)})
			if !obs.OK() {
				x.failed = "startup: " + obs.String()
				return
			}
			vrt.Quiesce()
			vrt.Branching(true)
			var done []c32Write
			t1 := vrt.Spawn("W1", func() {
				for _, wr := range w1 {
					if c32Do(w, wr) == nil {
						done = append(done, wr)
					}
				}
			})
			t2 := vrt.Spawn("W2", func() {
				for _, wr := range w2 {
					if c32Do(w, wr) == nil {
						done = append(done, wr)
					}
				}
			})
			vrt.Join(t1, t2)
			w.WAL.Shutdown() // drains the dispatcher (finishAndWait)
			x.data["sink"] = sink
			x.data["done"] = done
			x.note("delivered %d records for %d acknowledged writes", len(sink), len(done))
		},
		judge: func(x *execCtx, sch *vrt.Sched) []mc.Violation {
			sink, _ := x.data["sink"].([]c32Delivery)
			done, _ := x.data["done"].([]c32Write)
			vs := c32Compare(sink, done)
			order := ""
			for _, d := range sink {
				if d.pattern == "*/*/*" {
					order += fmt.Sprint(d.tag, ",")
				}
			}
			x.data["outcome"] = fmt.Sprintf("viol=%d,order=%s", len(vs), order)
			return vs
		},
	}
}

var c32Scens = []*scenario{c32Scenario()}

func init() {
	seqRule := "sequential: every history of <=3 writes over buckets {A/1H/X, AA/1H/X, B/1H/X, A/1D/X} x 2 intervals with recording triggers on {A/1H/X, */1H/X, B/*/X, */*/*}, real SyncWAL loop (scripted), deliveries compared after the graceful shutdown drained the dispatcher; "
	mc.Def(mc.Check{
		ID:    "C32",
		Level: "model_checking",
		Rule: seqRule + "concurrent: the real SyncWAL loop + the trigger dispatcher + two writers (A; AA then B), ALL interleavings with <=2 deviations (thorough 3), then shutdown. " +
			"reference matcher: the pattern is matched component-wise from the start of the key path, '*' = exactly one component. expected = every acknowledged record once per matching trigger, nothing else. non-trivial = >=2 writes / >=1 deviation",
		Assume:   []string{"the bucket alphabet avoids names where the component-wise and the string-prefix reading of the documentation differ, except the leading-substring case A vs AA", "UTC"},
		QuickMax: 8 * time.Minute, ThorMax: 30 * time.Minute,
	}, func(c *mc.Ctx, yield func(schedSpec)) {
		// sequential histories are encoded as Scen = -1 with the history in Prefix
		var rec func(cur []int)
		rec = func(cur []int) {
			if len(cur) > 0 {
				yield(schedSpec{Scen: -1, Prefix: append([]int{}, cur...), Single: true})
			}
			if len(cur) == 3 {
				return
			}
			for s := 0; s < 8; s++ {
				rec(append(cur, s))
			}
		}
		rec(nil)
		schedEnum(c32Scens, func(c *mc.Ctx, si int) int {
			if c.Thorough() {
				return 3
			}
			return 2
		})(c, yield)
	}, func(c *mc.Ctx, s schedSpec) {
		if s.Scen >= 0 {
			schedRun(c32Scens, "C32")(c, s)
			return
		}
		// sequential history
		var ws []c32Write
		for i, sym := range s.Prefix {
			ws = append(ws, c32Write{sym / 2, 10 + sym%2, int32(100*(i+1) + sym)})
		}
		world.FreshDevice()
		var sink []c32Delivery
		var failed string
		sch := vrt.Run(nil, func(sc *vrt.Sched) { sc.NoForcedTimers = false }, func() {
			w, obs := world.Start(world.Config{BackgroundSync: true, Triggers: c32Matchers(&sink)})
			if !obs.OK() {
				failed = obs.String()
				return
			}
			vrt.Quiesce()
			for _, wr := range ws {
				if err := c32Do(w, wr); err != nil {
					failed = err.Error()
					return
				}
			}
			w.WAL.Shutdown()
		})
		c.Eval(fmt.Sprint("seq", s.Prefix), len(ws) >= 2)
		c.Traces++
		c.Transitions += int64(sch.Steps)
		c.State(fmt.Sprint("seq", len(sink)))
		if failed != "" || len(sch.Panics) > 0 || sch.Deadlock {
			c.Violate("harness-failed|sequential", fmt.Sprint(failed, sch.Panics, sch.DeadInfo))
			return
		}
		for _, v := range c32Compare(sink, ws) {
			c.Violate(v.Sig, fmt.Sprintf("sequential history %v: %s", ws, v.What))
		}
		c.Outcome(fmt.Sprintf("seq/deliveries=%d", len(sink)))
		if len(ws) == 3 && s.Prefix[0] == 1 {
			c.Sample(map[string]any{"history": fmt.Sprint(ws), "deliveries": len(sink)})
		}
	})
}
