package checks

import (
	"encoding/binary"
	"fmt"
	"sort"
	"strings"
	"time"

	"github.com/alpacahq/marketstore/v4/utils/io"
	"github.com/alpacahq/marketstore/v4/verif/mc"
	"github.com/alpacahq/marketstore/v4/verif/rt/vos"
	"github.com/alpacahq/marketstore/v4/verif/rt/vrt"
	"github.com/alpacahq/marketstore/v4/verif/world"
)

// C34 WAL files are replayed once and never discarded while needed — explicit-state search over the
// restart graph: states are device images with the server down.

type c34Spec struct {
	Hist  int `json:"hist"`  // history index
	Crash int `json:"crash"` // crash prefix of the history's device log (level-1 state)
	Plant int `json:"plant"` // 0 none; 1 empty WAL; 2 header-only WAL; 3 already REPLAYED WAL; 4 unparsable WAL; 5 power loss: the un-checkpointed primary data writes never reached the disk
}

var c34Hists = []struct {
	name string
	ops  []string
}{
	{"fixed write", []string{"wF"}},
	{"variable write", []string{"wV"}},
	{"two buckets in one request", []string{"wM"}},
	{"write, checkpoint+rotation, write", []string{"wF", "ckpt", "wG"}},
	{"write A, write B, destroy A, write B", []string{"wF", "wG", "destroyF", "wG2"}},
	{"two variable writes (two transactions)", []string{"wV", "wVb"}},
}

type c34Run struct {
	base *vos.FS
	log  []vos.Op
}

var c34Cache = map[int]*c34Run{}

func c34History(h int) *c34Run {
	if r, ok := c34Cache[h]; ok {
		return r
	}
	d := world.FreshDevice()
	r := &c34Run{base: d.FS().Clone()}
	d.ResetLog()
	t0 := time.Date(2021, 3, 1, 10, 0, 0, 0, time.UTC)
	sch := vrt.Run(nil, func(s *vrt.Sched) { s.NoForcedTimers = true }, func() {
		w, obs := world.Start(world.Config{BackgroundSync: true, WALRotateInterval: 1})
		if !obs.OK() {
			panic("c34 history start: " + obs.String())
		}
		vrt.Quiesce()
		n := int32(0)
		reqNo := 0
		wr := func(key string, variable bool, ts ...time.Time) {
			reqNo++
			tags := make([]int32, len(ts))
			for i := range tags {
				n++
				tags[i] = 100 + n
			}
			var err error
			if variable {
				err = w.WriteCS(key, csVar(ts, []string{"V"}, []any{tags}), true)
			} else {
				err = w.WriteCS(key, csFixed(ts, []string{"V"}, []any{tags}), false)
			}
			if err != nil {
				panic("c34 history write: " + err.Error())
			}
			for i, t := range tags {
				d.Mark("acked", fmt.Sprintf("%s %d %d %d", key, ts[i].Unix(), t, reqNo))
			}
			vrt.Quiesce()
		}
		for _, op := range c34Hists[h].ops {
			switch op {
			case "wF":
				wr(kF, false, t0)
			case "wG":
				wr(kG, false, t0.Add(time.Hour))
			case "wG2":
				wr(kG, false, t0.Add(2*time.Hour))
			case "wV":
				wr(kV, true, t0.Add(10*time.Minute), t0.Add(20*time.Minute))
			case "wVb":
				wr(kV, true, t0.Add(3*time.Hour+5*time.Minute))
			case "wM":
				csm := io.NewColumnSeriesMap()
				csm.AddColumnSeries(*world.Key(kF), csFixed([]time.Time{t0}, []string{"V"}, []any{[]int32{201}}))
				csm.AddColumnSeries(*world.Key(kG), csFixed([]time.Time{t0}, []string{"V"}, []any{[]int32{202}}))
				if err := w.WriteCSM(csm, false); err != nil {
					panic(err)
				}
				d.Mark("acked", fmt.Sprintf("%s %d %d", kF, t0.Unix(), 201))
				d.Mark("acked", fmt.Sprintf("%s %d %d", kG, t0.Unix(), 202))
				vrt.Quiesce()
			case "ckpt":
				vrt.Fire(tickPrimaryd)
				vrt.Quiesce()
			case "destroyF":
				d.Mark("destroying", kF)
				if err := w.Destroy(kF); err != nil {
					panic("c34 destroy: " + err.Error())
				}
			}
		}
	})
	if len(sch.Panics) > 0 || sch.Deadlock {
		panic(fmt.Sprint("c34 history failed: ", sch.Panics, sch.DeadInfo))
	}
	r.log = append([]vos.Op{}, d.Log()...)
	c34Cache[h] = r
	return r
}

func init() {
	mc.Def(mc.Check{
		ID:    "C34",
		Level: "model_checking",
		Rule: "restart graph: states = device images with the server down. level 1: each of 5 histories (fixed write; variable write; two buckets in one request; write+checkpoint+rotation+write; write A, write B, destroy A, write B) crashed at EVERY prefix of its device log, optionally with a planted WAL (empty, header-only, already REPLAYED, unparsable); " +
			"level 2: a startup on that image, crashed at EVERY device operation of the startup itself (replay, status rewrites, checkpoint, delete); level 3 (thorough): a second startup crashed at every operation; every state is closed by a complete startup and judged; states de-duplicated by image hash. " +
			"invariant: every row acknowledged or committed (checksum-valid TG + WAL commit record, decoded independently) for a still-existing bucket is visible after the closing startup; the starting instance's own WAL is not removed and keeps its header; after a completed startup no other *.walfile remains; a further restart writes nothing to the primary files",
		Assume:   []string{"process-crash model", "UTC", "independent WAL and TG decoder (mc/walfmt.go, checks/c34.go)"},
		QuickMax: 8 * time.Minute, ThorMax: 45 * time.Minute,
	}, c34Enum, c34RunCase)
}

func c34Enum(c *mc.Ctx, yield func(c34Spec)) {
	for h := range c34Hists {
		r := c34History(h)
		for k := 0; k <= len(r.log); k++ {
			if k > 0 && r.log[k-1].Kind == vos.OpMark && k < len(r.log) {
				continue // same image as the previous prefix
			}
			yield(c34Spec{h, k, 0})
		}
		for p := 1; p <= 4; p++ {
			yield(c34Spec{h, len(r.log), p})
			yield(c34Spec{h, len(r.log) / 2, p})
		}
		yield(c34Spec{h, len(r.log), 5})
	}
}

type c34Row struct {
	key   string
	epoch int64
	tag   int32
	req   int // write request that carried the row (0 = unknown: decoded from a WAL)
}

// decodeTGRows independently decodes the rows a serialized transaction group writes.
func decodeTGRows(body []byte) (rows []c34Row, ok bool) {
	defer func() {
		if recover() != nil {
			ok = false
		}
	}()
	cur := 16
	n := int(binary.LittleEndian.Uint64(body[8:]))
	for i := 0; i < n; i++ {
		rt := body[cur]
		cur++
		fpl := int(binary.LittleEndian.Uint16(body[cur:]))
		cur += 2
		path := string(body[cur : cur+fpl])
		cur += fpl
		dl := int(binary.LittleEndian.Uint32(body[cur:]))
		cur += 4
		vrl := int(binary.LittleEndian.Uint32(body[cur:]))
		cur += 4
		cur += 8 // offset
		index := int64(binary.LittleEndian.Uint64(body[cur:]))
		cur += 8
		data := body[cur : cur+dl]
		cur += dl
		ns := int(body[cur])
		cur++
		for s := 0; s < ns; s++ {
			l := int(body[cur])
			cur += 1 + l + 1
		}
		parts := strings.Split(path, "/")
		if len(parts) != 4 {
			continue
		}
		key := strings.Join(parts[:3], "/")
		var year int
		fmt.Sscanf(parts[3], "%d.bin", &year)
		epoch := time.Date(year, 1, 1, 0, 0, 0, 0, time.UTC).Add(time.Duration(index-1) * time.Hour).Unix()
		if rt == 0 {
			rows = append(rows, c34Row{key, epoch, int32(binary.LittleEndian.Uint32(data)), 0})
		} else if vrl > 0 {
			for o := 0; o+vrl <= len(data); o += vrl {
				rows = append(rows, c34Row{key, epoch, int32(binary.LittleEndian.Uint32(data[o:])), 0})
			}
		}
	}
	return rows, true
}

// c34Required: rows that must be visible after the next complete startup of image img.
func c34Required(img *vos.FS, log []vos.Op, k int) (req []c34Row, destroyed map[string]bool) {
	destroyed = map[string]bool{}
	seen := map[c34Row]bool{}
	for _, op := range log[:k] {
		if op.Kind != vos.OpMark {
			continue
		}
		switch op.Path {
		case "acked":
			var r c34Row
			fmt.Sscan(op.Path2, &r.key, &r.epoch, &r.tag, &r.req)
			rr := r
			rr.req = 0
			if seen[rr] {
				continue
			}
			seen[rr] = true
			if !seen[r] {
				seen[r] = true
				req = append(req, r)
			}
		case "destroying":
			destroyed[op.Path2] = true
		}
	}
	// committed transactions held by WAL files that still need replay
	img.Walk(world.Root, func(p string, dir bool, size int64, read func() []byte) {
		if dir || !strings.HasSuffix(p, ".walfile") {
			return
		}
		msgs := mc.DecodeWAL(read())
		if len(msgs) == 0 || msgs[0].Kind != "STATUS" || (msgs[0].ReplayState != 1 && msgs[0].ReplayState != 3) {
			return
		}
		committed := map[int64]bool{}
		ckpt := int64(-1)
		for _, m := range msgs {
			if m.Kind == "TI" && m.Status == 2 {
				if m.Dest == 0 {
					committed[m.TGID] = true
				} else if m.TGID > ckpt {
					ckpt = m.TGID
				}
			}
		}
		for _, m := range msgs {
			if m.Kind == "TG" && committed[m.TGID] && m.TGID > ckpt {
				if rows, ok := decodeTGRows(m.Body); ok {
					for _, r := range rows {
						if !seen[r] {
							seen[r] = true
							req = append(req, r)
						}
					}
				}
			}
		}
	})
	var out []c34Row
	for _, r := range req {
		if !destroyed[r.key] {
			out = append(out, r)
		}
	}
	return out, destroyed
}

type c34Startup struct {
	obs    world.StartObs
	log    []vos.Op
	after  *vos.FS
	tables map[string]*bucketState
	ownWAL string
}

// c34Start runs one complete startup on a copy of img and reads all buckets.
func c34Start(img *vos.FS) *c34Startup {
	d := vos.FromFS(img)
	vos.Install(d)
	s := &c34Startup{tables: map[string]*bucketState{}}
	w, obs := world.Start(world.Config{BackgroundSync: false})
	s.obs = obs
	s.log = append([]vos.Op{}, d.Log()...)
	for _, op := range s.log {
		if op.Kind == vos.OpCreate && strings.HasSuffix(op.Path, ".walfile") && s.ownWAL == "" {
			s.ownWAL = op.Path
		}
	}
	if obs.OK() {
		d.SetLogging(false)
		for _, k := range crashKeys {
			b := &bucketState{fixed: map[int64]int32{}}
			_ = safely(func() {
				tab, err := w.QueryAll(k)
				if err != nil {
					return
				}
				vi, ei := tab.Col("V"), tab.Col("Epoch")
				for _, row := range tab.Rows {
					if vi >= 0 && ei >= 0 {
						b.recs = append(b.recs, row[vi].(int32))
					}
				}
			})
			s.tables[k] = b
		}
		w.Close()
		d.SetLogging(true)
	}
	s.after = d.FS()
	return s
}

func c34PhaseOf(log []vos.Op, k int) string {
	if k == 0 {
		return "before-startup"
	}
	if k >= len(log) {
		return "startup-complete"
	}
	o := log[k-1]
	isWAL := strings.HasSuffix(o.Path, ".walfile")
	switch {
	case o.Kind == vos.OpRemove && isWAL:
		return "after-wal-delete"
	case o.Kind == vos.OpRename:
		return "after-wal-moved-aside"
	case o.Kind == vos.OpWrite && isWAL && o.Off == 0:
		return "after-status-rewrite"
	case o.Kind == vos.OpWrite && isWAL:
		return "after-checkpoint-record"
	case o.Kind == vos.OpWrite && strings.HasSuffix(o.Path, ".bin"):
		return "after-primary-replay-write"
	case o.Kind == vos.OpSyncAll:
		return "after-syncall"
	case o.Kind == vos.OpCreate && isWAL:
		return "after-own-wal-create"
	}
	return "other"
}

func c34RunCase(c *mc.Ctx, s c34Spec) {
	hr := c34History(s.Hist)
	img1 := hr.base.Clone()
	for i := 0; i < s.Crash; i++ {
		img1.Apply(&hr.log[i])
	}
	plantName := []string{"", "empty", "header-only", "already-replayed", "unparsable", ""}[s.Plant]
	if s.Plant == 5 {
		// power loss: the data-area writes to primary files after the last global sync never reached the disk (the WAL did)
		lastSync := -1
		for i := 0; i < s.Crash; i++ {
			if hr.log[i].Kind == vos.OpSyncAll {
				lastSync = i
			}
		}
		img1 = hr.base.Clone()
		for i := 0; i < s.Crash; i++ {
			op := &hr.log[i]
			if op.Kind == vos.OpWrite && strings.HasSuffix(op.Path, ".bin") && op.Off >= 37024 && i > lastSync {
				continue
			}
			img1.Apply(op)
		}
	}
	if s.Plant > 0 && s.Plant < 5 {
		d := vos.FromFS(img1)
		d.SetLogging(false)
		var content []byte
		hdr := func(fs, rs byte) []byte {
			b := []byte{2, fs, rs}
			return append(b, 1, 2, 3, 4, 5, 6, 7, 0)
		}
		switch s.Plant {
		case 1:
		case 2:
			content = hdr(1, 1)
		case 3:
			content = append(hdr(2, 2), []byte{1, 9, 0, 0, 0, 0, 0, 0, 0, 0, 2}...)
		case 4:
			content = append(hdr(1, 1), []byte("this is not a write-ahead log, not even close: \x00\x01\x02\xff\xfe garbage garbage")...)
		}
		d.MkdirAll(world.Root, 0o770)
		d.WriteFile(world.Root+"/WALFile.1500000000000000000.walfile", content, 0o600)
		img1 = d.FS()
	}
	req, _ := c34Required(img1, hr.log, s.Crash)
	histName := c34Hists[s.Hist].name
	where1 := fmt.Sprintf("history %q crashed after device op %d/%d", histName, s.Crash, len(hr.log))
	if s.Plant > 0 && s.Plant < 5 {
		where1 += ", planted " + plantName + " WAL"
	}
	if s.Plant == 5 {
		where1 += ", power loss: un-checkpointed primary data writes lost"
	}
	seen := map[uint64]bool{}
	interrupted := 0 // number of startups that were crashed on the way to the state being judged
	judge := func(img *vos.FS, where, phase string) {
		h := fsHash(img)
		if seen[h] {
			return
		}
		seen[h] = true
		if !c.State(fmt.Sprint(s.Hist, s.Plant, h)) {
			// state already reached through another path of this shard
		}
		c.Transitions++
		st := c34Start(img.Clone())
		c.Traces++
		c.Eval(fmt.Sprint(s, h), true)
		if !st.obs.OK() {
			c.Violate("startup-failed|"+failingCall(st.obs.String()), where+" ["+phase+"]: startup failed: "+st.obs.String())
			c.Outcome("startup-failed")
			return
		}
		for _, r := range req {
			found := false
			for _, t := range st.tables[r.key].recs {
				if t == r.tag {
					found = true
				}
			}
			if !found {
				cause := "other:" + phase
				st.after.Walk(world.Root, func(p string, dir bool, size int64, read func() []byte) {
					if !dir && strings.HasSuffix(p, ".walfile.tmp") {
						cause = "wal-moved-aside-with-commits"
					}
				})
				c.Violate("committed-row-lost|"+cause, fmt.Sprintf("%s [%s]: acknowledged/committed row %d of %s is not visible after a complete startup (buckets: %s)", where, phase, r.tag, r.key, fmtState(st.tables)))
				c.Outcome("row-lost")
				return
			}
		}
		// "replayed once": on the power-loss lineage every record has to be replayed exactly once; an interrupted
		// recovery may at most repeat the transaction it was in the middle of
		if s.Plant == 5 {
			cnt := map[int32]int{}
			for _, t := range st.tables[kV].recs {
				cnt[t]++
			}
			dupReq := map[int]bool{}
			for _, r := range req {
				if r.key == kV && r.req > 0 && cnt[r.tag] > 1 {
					dupReq[r.req] = true
				}
			}
			if len(dupReq) > 0 {
				n := "at-most-one-per-interrupted-recovery"
				if len(dupReq) > interrupted {
					n = "more-than-one-per-interrupted-recovery"
				}
				c.Violate("replayed-twice|variable|"+n, fmt.Sprintf("%s [%s]: after the closing startup the records of %d write request(s) are stored more than once, %d startup(s) were interrupted before (%s)", where, phase, len(dupReq), interrupted, fmtState(st.tables)))
				c.Outcome("replayed-twice")
			}
		}
		// own WAL untouched; no foreign walfile left
		var left []string
		st.after.Walk(world.Root, func(p string, dir bool, size int64, read func() []byte) {
			if !dir && strings.HasSuffix(p, ".walfile") && p != st.ownWAL {
				left = append(left, strings.TrimPrefix(p, world.Root+"/"))
			}
		})
		if len(left) > 0 {
			c.Violate("wal-left-after-startup|"+phase, fmt.Sprintf("%s: after a complete startup these WAL files remain besides the instance's own: %v", where, left))
		}
		for _, op := range st.log {
			if op.Path == st.ownWAL && (op.Kind == vos.OpRemove || op.Kind == vos.OpRename) {
				c.Violate("own-wal-removed|"+phase, where+": the starting instance removed or renamed its own WAL "+st.ownWAL)
			}
		}
		if own := mc.DecodeWAL(st.after.ReadAll(st.ownWAL)); len(own) == 0 || own[0].Kind != "STATUS" || own[0].FileStatus != 1 || own[0].ReplayState != 1 {
			c.Violate("own-wal-header-changed|"+phase, fmt.Sprintf("%s: the instance's own WAL does not carry (OPEN, NOTREPLAYED) after startup: %v", where, own))
		}
		// a further restart applies nothing
		st2 := c34Start(st.after.Clone())
		if !st2.obs.OK() {
			c.Violate("second-startup-failed|"+failingCall(st2.obs.String()), where+": the restart after a complete startup failed: "+st2.obs.String())
		} else {
			for _, op := range st2.log {
				if op.Kind == vos.OpWrite && strings.HasSuffix(op.Path, ".bin") {
					c.Violate("second-restart-replays|"+phase, fmt.Sprintf("%s: the restart after a complete startup wrote to %s again", where, op.Path))
					break
				}
			}
		}
		c.Outcome("ok:" + phase)
	}
	// level 1 state
	judge(img1, where1, "level1")
	// level 2: startup on img1 crashed at every device op
	st := c34Start(img1.Clone())
	img2 := img1.Clone()
	type l2 struct {
		img   *vos.FS
		where string
	}
	var level2 []l2
	for k := 1; k <= len(st.log); k++ {
		img2.Apply(&st.log[k-1])
		if st.log[k-1].Kind == vos.OpMark || st.log[k-1].Kind == vos.OpFsync {
			continue
		}
		ph := c34PhaseOf(st.log, k)
		w2 := fmt.Sprintf("%s, then a startup crashed after its device op %d/%d (%s %s)", where1, k, len(st.log), st.log[k-1].Kind, strings.TrimPrefix(st.log[k-1].Path, world.Root+"/"))
		cl := img2.Clone()
		interrupted = 1
		judge(cl, w2, ph)
		if c.Thorough() {
			level2 = append(level2, l2{cl, w2})
		}
	}
	// level 3 (thorough): a second startup crashed at every op
	for _, s2 := range level2 {
		st3 := c34Start(s2.img.Clone())
		img3 := s2.img.Clone()
		for k := 1; k <= len(st3.log); k++ {
			img3.Apply(&st3.log[k-1])
			if st3.log[k-1].Kind == vos.OpMark || st3.log[k-1].Kind == vos.OpFsync {
				continue
			}
			interrupted = 2
			judge(img3.Clone(), fmt.Sprintf("%s, then another startup crashed after its device op %d/%d", s2.where, k, len(st3.log)), "second-"+c34PhaseOf(st3.log, k))
		}
	}
	if s.Crash%11 == 0 {
		var rq []string
		for _, r := range req {
			rq = append(rq, fmt.Sprintf("%s#%d", r.key, r.tag))
		}
		sort.Strings(rq)
		c.Sample(map[string]any{"level1": where1, "startup_ops": len(st.log), "required_rows": rq, "states_from_here": len(seen)})
	}
}
