package checks

import (
	"fmt"
	"time"

	"github.com/alpacahq/marketstore/v4/utils"
	"github.com/alpacahq/marketstore/v4/verif/mc"
)

// C31 Timeframe and candle-window arithmetic is consistent.

type c31Spec struct {
	Str  string `json:"str"`
	Zone string `json:"zone"`
	Year int    `json:"year"`
}

var c31Mult = []int{1, 2, 3, 5, 7, 10, 15, 30, 45, 60, 90}
var c31Suffix = []string{"S", "Sec", "T", "Min", "H", "D", "W", "M", "Y"}

func init() {
	mc.Def(mc.Check{
		ID:    "C31",
		Level: "exploration",
		Rule: "every string <n><suffix>, n in {1,2,3,5,7,10,15,30,45,60,90}, suffix in {S,Sec,T,Min,H,D,W,M,Y} that the parser accepts; instants = every hour (thorough: every 10 min) of 2019/2020/2021/2024 in 5 zones " +
			"plus +-1 ns around every window edge met; checks Truncate<=t<Ceil, IsWithin(t,Truncate(t)), parse/print fixed point, QueryableTimeframe divides. distinct by (string, zone, instant)",
		Assume:   []string{"zones with a permanent offset change inside a year are outside the alphabet"},
		QuickMax: 5 * time.Minute, ThorMax: 30 * time.Minute,
	}, c31Enum, c31Run)
}

func c31Enum(c *mc.Ctx, yield func(c31Spec)) {
	for _, n := range c31Mult {
		for _, sf := range c31Suffix {
			for _, z := range c30Zones {
				for _, y := range c30Years {
					yield(c31Spec{fmt.Sprintf("%d%s", n, sf), z, y})
				}
			}
		}
	}
}

func c31Run(c *mc.Ctx, s c31Spec) {
	loc, _ := time.LoadLocation(s.Zone)
	zc := c30ZoneClass(s.Zone)
	cd, err := utils.CandleDurationFromString(s.Str)
	if err != nil || cd == nil {
		c.Eval(s, false)
		c.Outcome("unparsable")
		return
	}
	suffix := s.Str[len(fmt.Sprint(atoiPrefix(s.Str))):]
	// --- string laws (once per string: only for the first zone/year to keep counts honest)
	if s.Zone == "UTC" && s.Year == c30Years[0] {
		if tf := utils.TimeframeFromString(s.Str); tf != nil && tf.Duration >= time.Second {
			t1 := utils.TimeframeFromDuration(tf.Duration)
			if t1 == nil {
				// durations above one year are not printable by design (asserted by the repository's own test): nothing to be unstable
				c.Outcome("unprintable")
			} else {
				t2 := utils.TimeframeFromString(t1.String)
				if t2 == nil || t2.Duration != tf.Duration {
					c.Violate("parse-print-unstable|"+suffix, fmt.Sprintf("%q -> %v -> %q -> %v", s.Str, tf.Duration, t1.String, t2))
				} else if t3 := utils.TimeframeFromDuration(t2.Duration); t3 == nil || t3.String != t1.String {
					c.Violate("parse-print-unstable|"+suffix, fmt.Sprintf("%q prints as %q then %v", s.Str, t1.String, t3))
				}
			}
		}
		q := cd.QueryableTimeframe()
		qd := utils.TimeframeFromString(q)
		if qd == nil {
			c.Violate("queryable-unparsable|"+suffix, fmt.Sprintf("QueryableTimeframe(%q) = %q", s.Str, q))
		} else if suffix != "M" && (cd.Duration() == 0 || cd.Duration()%qd.Duration != 0) {
			c.Violate("queryable-does-not-divide|"+suffix, fmt.Sprintf("QueryableTimeframe(%q) = %q does not divide %v", s.Str, q, cd.Duration()))
		}
	}
	// --- window laws
	step := time.Hour
	if c.Thorough() {
		step = 10 * time.Minute
	}
	y0 := time.Date(s.Year, 1, 1, 0, 0, 0, 0, loc)
	y1 := time.Date(s.Year+1, 1, 1, 0, 0, 0, 0, loc)
	var n int64
	seenEdge := map[int64]bool{}
	checkT := func(t time.Time) {
		n++
		tr := cd.Truncate(t)
		ce := cd.Ceil(t)
		switch {
		case tr.After(t):
			c.Violate("truncate-after-t|"+suffix+"|"+zc, fmt.Sprintf("%s in %s: Truncate(%v) = %v is after t", s.Str, s.Zone, t, tr))
		case !ce.After(t):
			c.Violate("ceil-not-after-t|"+suffix+"|"+zc, fmt.Sprintf("%s in %s: Ceil(%v) = %v is not after t", s.Str, s.Zone, t, ce))
		}
		if !cd.IsWithin(t, tr) {
			c.Violate("not-within-own-window|"+suffix+"|"+zc, fmt.Sprintf("%s in %s: IsWithin(%v, Truncate=%v) is false", s.Str, s.Zone, t, tr))
		}
	}
	for t := y0; t.Before(y1); t = t.Add(step) {
		checkT(t)
		for _, e := range []time.Time{cd.Truncate(t), cd.Ceil(t)} {
			if e.Before(y0) || !e.Before(y1) || seenEdge[e.UnixNano()] {
				continue
			}
			seenEdge[e.UnixNano()] = true
			checkT(e)
			checkT(e.Add(-1))
			checkT(e.Add(1))
		}
	}
	c.EvalBulk(n)
	c.Outcome("parsed/" + suffix)
	if s.Zone == "UTC" && s.Year == 2020 {
		c.Sample(map[string]any{"string": s.Str, "zone": s.Zone, "year": s.Year, "instants": n})
	}
}

func atoiPrefix(s string) int {
	n := 0
	for _, r := range s {
		if r < '0' || r > '9' {
			break
		}
		n = n*10 + int(r-'0')
	}
	return n
}
