package checks

import (
	"fmt"
	"strings"
	"time"

	"github.com/alpacahq/marketstore/v4/verif/mc"
	"github.com/alpacahq/marketstore/v4/verif/rt/vos"
	"github.com/alpacahq/marketstore/v4/verif/rt/vrt"
	"github.com/alpacahq/marketstore/v4/verif/world"
)

// C35 Restart after graceful shutdown preserves query results.

func c35Snapshot(w *world.World) map[string]string {
	m := map[string]string{}
	for _, k := range []string{c18Fix, c18Var} {
		tab, err := w.QueryAll(k)
		if err != nil {
			m[k] = "ERROR " + errClass(err)
			continue
		}
		vi := tab.Col("V")
		var l []string
		for _, r := range tab.Rows {
			if vi >= 0 {
				l = append(l, fmt.Sprint(r[vi]))
			}
		}
		m[k] = strings.Join(l, " ")
	}
	return m
}

func c35Scenario(withCheckpointTimer bool) *scenario {
	name := "SyncWAL + fixed writer + variable writer + graceful shutdown"
	if withCheckpointTimer {
		name += " + checkpoint timer"
	}
	return &scenario{
		name: name,
		cfg: func(s *vrt.Sched) {
			// early (deviating) fires are allowed from the start of the concurrent part, see body
		},
		body: func(x *execCtx) {
			vrt.Branching(false) // setup (startup, pre-population) runs on the default schedule only
			w, obs := world.Start(world.Config{BackgroundSync: true, WALRotateInterval: 1})
			if !obs.OK() {
				x.failed = "startup: " + obs.String()
				return
			}
			vrt.Quiesce()
			// pre-populate: the variable interval already holds a record (an un-checkpointed one)
			if err := w.WriteCS(c18Var, csVar([]time.Time{c18T0.Add(5 * time.Minute)}, []string{"V"}, []any{[]int32{1}}), true); err != nil {
				x.failed = err.Error()
				return
			}
			if err := w.WriteCS(c18Fix, csFixed([]time.Time{c18T0}, []string{"V"}, []any{[]int32{2}}), false); err != nil {
				x.failed = err.Error()
				return
			}
			vrt.Quiesce()
			// timers: when nothing else can run time passes by itself (the 5 ms check ticker lets the loop notice the
			// shutdown flag); early fires as deviations: WAL flush timer once, checkpoint timer once (scenario 2)
			vrt.Branching(true)
			vrt.AllowTimer(tickWALd, 1)
			if withCheckpointTimer {
				vrt.AllowTimer(tickPrimaryd, 1)
			}
			acked := map[int32]bool{1: true, 2: true}
			// when each write request was issued relative to the shutdown request
			shutdownRequested := false
			issued := map[int32]string{1: "before-shutdown-request", 2: "before-shutdown-request"}
			phase := func() string {
				if shutdownRequested {
					return "during-shutdown"
				}
				return "before-shutdown-request"
			}
			w1 := vrt.Spawn("W1", func() {
				issued[100] = phase()
				if err := w.WriteCS(c18Fix, csFixed([]time.Time{c18T0.Add(time.Hour)}, []string{"V"}, []any{[]int32{100}}), false); err == nil {
					acked[100] = true
				}
			})
			w2 := vrt.Spawn("W2", func() {
				issued[200] = phase()
				if err := w.WriteCS(c18Var, csVar([]time.Time{c18T0.Add(10 * time.Minute)}, []string{"V"}, []any{[]int32{200}}), true); err == nil {
					acked[200] = true
				}
			})
			_, _ = w1, w2
			s := vrt.Spawn("Shutdown", func() {
				shutdownRequested = true
				w.WAL.Shutdown()
				// the process exits here: the device image and the query results of this very instant
				vrt.Atomic(func() {
					x.data["before"] = c35Snapshot(w)
					x.data["image"] = x.dev.FS().Clone()
					a := map[int32]bool{}
					for k, v := range acked {
						a[k] = v
					}
					x.data["acked"] = a
					is := map[int32]string{}
					for k, v := range issued {
						is[k] = v
					}
					x.data["issued"] = is
					x.note("shutdown returned; acked=%v before=%v", a, x.data["before"])
				})
			})
			vrt.Join(s)
		},
		judge: func(x *execCtx, sch *vrt.Sched) (vs []mc.Violation) {
			img, ok := x.data["image"].(*vos.FS)
			if !ok {
				return nil // shutdown did not return (reported as deadlock/livelock by the explorer)
			}
			before := x.data["before"].(map[string]string)
			acked := x.data["acked"].(map[int32]bool)
			vos.Install(vos.FromFS(img))
			w2, obs := world.Start(world.Config{BackgroundSync: false})
			if !obs.OK() {
				x.data["outcome"] = "restart-failed"
				return []mc.Violation{{Sig: "restart-failed|" + failingCall(obs.String()), What: "restart after the graceful shutdown failed: " + obs.String()}}
			}
			after := c35Snapshot(w2)
			w2.Close()
			for _, k := range []string{c18Fix, c18Var} {
				rt := "fixed"
				if k == c18Var {
					rt = "variable"
				}
				if before[k] == after[k] {
					continue
				}
				sym := "differs"
				b, a := strings.Fields(before[k]), strings.Fields(after[k])
				cnt := func(l []string) map[string]int {
					m := map[string]int{}
					for _, s := range l {
						m[s]++
					}
					return m
				}
				bc, ac := cnt(b), cnt(a)
				issued, _ := x.data["issued"].(map[int32]string)
				dupPhase := ""
				for t, n := range ac {
					if n > bc[t] && bc[t] > 0 {
						sym = "duplicate-after-restart"
						var tag int32
						fmt.Sscan(t, &tag)
						if ph := issued[tag]; ph == "before-shutdown-request" || dupPhase == "" {
							dupPhase = ph
						}
					}
				}
				for t, n := range bc {
					if ac[t] < n {
						sym = "lost-after-restart"
					}
				}
				if sym == "differs" && len(a) > len(b) {
					sym = "appears-after-restart" // an unacknowledged write surfacing is still a different query result
				}
				if sym == "duplicate-after-restart" {
					_ = dupPhase
					rt += "|" + c35DupCause(x, sch, img, bc, ac)
				}
				vs = append(vs, mc.Violation{Sig: sym + "|" + rt, What: fmt.Sprintf("bucket %s: just before the shutdown returned a query gave [%s], after the restart [%s] (acked %v)", k, before[k], after[k], acked)})
			}
			for tag := range acked {
				found := false
				for _, k := range []string{c18Fix, c18Var} {
					for _, f := range strings.Fields(after[k]) {
						if f == fmt.Sprint(tag) {
							found = true
						}
					}
				}
				if !found {
					vs = append(vs, mc.Violation{Sig: "acked-write-lost", What: fmt.Sprintf("write %d was acknowledged before the shutdown returned but is absent after the restart (%v)", tag, after)})
				}
			}
			x.data["outcome"] = fmt.Sprintf("viol=%d,acked=%d,after=%s|%s", len(vs), len(acked), after[c18Fix], after[c18Var])
			return vs
		},
	}
}

var c35Scens = []*scenario{c35Scenario(false), c35Scenario(true)}

func init() {
	mc.Def(mc.Check{
		ID:    "C35",
		Level: "model_checking",
		Rule: "threads: the real SyncWAL loop + a fixed-bucket writer + a variable-bucket writer (into an interval that already holds an un-checkpointed record) + a thread calling the graceful Shutdown, timers: WAL flush (<=1), 5 ms check (<=2), second scenario also the checkpoint timer with rotation (<=1); " +
			"ALL interleavings with <=2 deviations (thorough: 3); at the instant Shutdown returns the query results and the device image are captured atomically, the server is restarted on that image through the real startup path and queried again. " +
			"oracle: equal results, every write acknowledged before Shutdown returned present, no variable record duplicated. non-trivial = schedules with >=1 deviation",
		Assume:   []string{"the process exits when Shutdown returns (cmd/start): threads still running then are cut off", "UTC"},
		QuickMax: 8 * time.Minute, ThorMax: 25 * time.Minute,
	}, schedEnum(c35Scens, func(c *mc.Ctx, si int) int {
		if c.Thorough() {
			return 3
		}
		return 2
	}), schedRun(c35Scens, "C35"))
}

// c35DupCause explains why a record is stored twice after the restart, from the WAL the shutdown left behind:
// its transaction is covered by a checkpoint record yet was replayed; or it was logged after the last
// checkpoint — by the writer's own inline flush (a write racing with the shutdown) or by the WAL writer loop.
func c35DupCause(x *execCtx, sch *vrt.Sched, img *vos.FS, bc, ac map[string]int) string {
	dup := map[int32]bool{}
	for t, n := range ac {
		if n > bc[t] && bc[t] > 0 {
			var tag int32
			fmt.Sscan(t, &tag)
			dup[tag] = true
		}
	}
	cause := "unexplained"
	img.Walk(world.Root, func(p string, dir bool, size int64, read func() []byte) {
		if dir || !strings.HasSuffix(p, ".walfile") {
			return
		}
		msgs := mc.DecodeWAL(read())
		ckpt := int64(-1)
		for _, m := range msgs {
			if m.Kind == "TI" && m.Dest == 1 && m.Status == 2 && m.TGID > ckpt {
				ckpt = m.TGID
			}
		}
		for _, m := range msgs {
			if m.Kind != "TG" {
				continue
			}
			rows, ok := decodeTGRows(m.Body)
			hit := false
			for _, r := range rows {
				if ok && dup[r.tag] {
					hit = true
				}
			}
			if !hit {
				continue
			}
			if m.TGID <= ckpt {
				cause = "replayed-although-checkpointed"
				continue
			}
			who := "wal-writer-loop"
			for _, op := range x.dev.Log() {
				if op.Kind == vos.OpWrite && op.Path == p && op.Off <= int64(m.Off) && int64(m.Off) < op.Off+int64(len(op.Data)) {
					if op.Tid < len(sch.Threads) && (sch.Threads[op.Tid].Name == "W1" || sch.Threads[op.Tid].Name == "W2") {
						who = "inline-flush-by-writer"
					}
				}
			}
			if cause == "unexplained" || who == "wal-writer-loop" {
				cause = "logged-after-last-checkpoint-by-" + who
			}
		}
	})
	return cause
}
