package checks

import (
	"fmt"
	"reflect"
	"sort"

	"github.com/vmihailenco/msgpack"

	"github.com/alpacahq/marketstore/v4/utils/io"
	"github.com/alpacahq/marketstore/v4/verif/mc"
)

// C27 Query/write wire format round-trips.

type c27Spec struct {
	Types   []string `json:"types"`   // column types (after Epoch)
	Len     int      `json:"len"`     // rows per bucket
	Buckets int      `json:"buckets"` // buckets in the dataset
}

func init() {
	mc.Def(mc.Check{
		ID:    "C27",
		Level: "exploration",
		Rule: "every schema of 1-2 (thorough 1-3) columns over the 11 wire types, row counts {0,1,2,3}, 1-3 buckets per dataset, boundary values; " +
			"path NewNumpyDataset -> NewNumpyMultiDataset/Append -> msgpack encode/decode -> ToColumnSeriesMap. distinct by (types, length, buckets); non-trivial = length>0",
		Assume:   []string{"msgpack codec = github.com/vmihailenco/msgpack as used by utils/rpc/msgpack2"},
		Shards:   4,
		QuickMax: 3 * time3, ThorMax: 10 * time3,
	}, c27Enum, c27Run)
}

func c27Enum(c *mc.Ctx, yield func(c27Spec)) {
	maxCols := 2
	if c.Thorough() {
		maxCols = 3
	}
	var rec func(cur []string)
	rec = func(cur []string) {
		if len(cur) > 0 {
			for _, l := range []int{0, 1, 2, 3} {
				for b := 1; b <= 3; b++ {
					yield(c27Spec{Types: append([]string{}, cur...), Len: l, Buckets: b})
				}
			}
		}
		if len(cur) == maxCols {
			return
		}
		for _, t := range allTypes {
			rec(append(cur, t))
		}
	}
	rec(nil)
}

func c27MakeCS(types []string, n, salt int) *io.ColumnSeries {
	cs := io.NewColumnSeries()
	ep := make([]int64, n)
	for i := range ep {
		ep[i] = int64(1600000000 + 60*i + salt)
	}
	cs.AddColumn("Epoch", ep)
	for ci, ty := range types {
		bv := reflect.ValueOf(boundaryVals(ty))
		col := reflect.MakeSlice(bv.Type(), n, n)
		for i := 0; i < n; i++ {
			col.Index(i).Set(bv.Index((i + ci + salt) % bv.Len()))
		}
		cs.AddColumn(fmt.Sprintf("C%d", ci), col.Interface())
	}
	return cs
}

func c27Run(c *mc.Ctx, s c27Spec) {
	csm := io.NewColumnSeriesMap()
	var keys []string
	for b := 0; b < s.Buckets; b++ {
		k := fmt.Sprintf("S%d/1Min/OHLC", b)
		keys = append(keys, k)
		csm.AddColumnSeries(*io.NewTimeBucketKey(k), c27MakeCS(s.Types, s.Len, b))
	}
	sort.Strings(keys)
	var nmds *io.NumpyMultiDataset
	for _, k := range keys {
		tbk := *io.NewTimeBucketKey(k)
		cs := csm[tbk]
		if nmds == nil {
			nds, err := io.NewNumpyDataset(cs)
			if err != nil {
				c.Violate("encode-error|"+typesSig(s.Types), err.Error())
				return
			}
			nmds, err = io.NewNumpyMultiDataset(nds, tbk)
			if err != nil {
				c.Violate("encode-error|"+typesSig(s.Types), err.Error())
				return
			}
		} else if err := nmds.Append(cs, tbk); err != nil {
			c.Violate("append-error|"+typesSig(s.Types), err.Error())
			return
		}
	}
	raw, err := msgpack.Marshal(nmds)
	if err != nil {
		c.Violate("msgpack-error", err.Error())
		return
	}
	var back io.NumpyMultiDataset
	if err := msgpack.Unmarshal(raw, &back); err != nil {
		c.Violate("msgpack-error", err.Error())
		return
	}
	var out io.ColumnSeriesMap
	if p := safely(func() { out, err = back.ToColumnSeriesMap() }); p != "" {
		c.Violate("panic|decode|"+lenClass(s.Len), "ToColumnSeriesMap panicked: "+p)
		return
	}
	c.Eval(fmt.Sprint(s), s.Len > 0)
	c.Outcome(lenClass(s.Len))
	if err != nil {
		c.Violate("decode-error|"+lenClass(s.Len), err.Error())
		return
	}
	if len(out) != len(csm) {
		c.Violate("bucket-count|"+lenClass(s.Len), fmt.Sprintf("%d buckets in, %d out", len(csm), len(out)))
		return
	}
	for _, k := range keys {
		tbk := *io.NewTimeBucketKey(k)
		in, got := csm[tbk], out[tbk]
		if got == nil {
			c.Violate("bucket-missing|"+lenClass(s.Len), "bucket "+k+" missing after round trip")
			return
		}
		if !reflect.DeepEqual(in.GetColumnNames(), got.GetColumnNames()) {
			c.Violate("column-names|"+lenClass(s.Len), fmt.Sprintf("bucket %s: names %v became %v", k, in.GetColumnNames(), got.GetColumnNames()))
			return
		}
		for ci, nm := range in.GetColumnNames() {
			a, b := in.GetColumn(nm), got.GetColumn(nm)
			ty := "i8"
			if ci > 0 {
				ty = s.Types[ci-1]
			}
			if reflect.TypeOf(a) != reflect.TypeOf(b) {
				c.Violate("column-type|"+ty+"|"+lenClass(s.Len), fmt.Sprintf("bucket %s column %s: %T became %T", k, nm, a, b))
				return
			}
			if lenOf(a) != lenOf(b) {
				c.Violate("column-length|"+ty+"|"+lenClass(s.Len), fmt.Sprintf("bucket %s column %s: %d values became %d", k, nm, lenOf(a), lenOf(b)))
				return
			}
			for i := 0; i < lenOf(a); i++ {
				if !sameVal(indexOf(a, i), indexOf(b, i)) {
					c.Violate("column-value|"+ty, fmt.Sprintf("bucket %s column %s row %d: %v became %v", k, nm, i, indexOf(a, i), indexOf(b, i)))
					return
				}
			}
		}
	}
	c.Sample(map[string]any{"types": s.Types, "rows": s.Len, "buckets": s.Buckets, "encoded_bytes": len(raw)})
}

func typesSig(t []string) string { return fmt.Sprint(len(t), "cols") }

func lenClass(n int) string {
	switch n {
	case 0:
		return "len0"
	case 1:
		return "len1"
	}
	return "lenN"
}
