package checks

import (
	"fmt"
	"sort"
	"strings"
	"time"

	"github.com/alpacahq/marketstore/v4/verif/mc"
	"github.com/alpacahq/marketstore/v4/verif/rt/vos"
	"github.com/alpacahq/marketstore/v4/verif/rt/vrt"
	"github.com/alpacahq/marketstore/v4/verif/world"
)

// C05 WAL protocol: replay, checkpoint and rotation never lose commits.
//
// schedmc x crashmc: every interleaving (bounded deviations) of the SyncWAL loop's events with two
// writers; for every DISTINCT resulting device log every crash prefix is recovered through the real
// startup path. The protocol model (WALModel, DESIGN Appendix A) runs over every log as a trace
// acceptor; a broken rule is not a verdict but makes the checker execute the crash point / loss
// pattern at which that rule's protection is needed.

var c05Images = map[uint64]*recovered{} // recoveries memoised by image hash (per process)
var c05Logs = map[uint64]bool{}

type c05Cfg struct {
	name     string
	rotate   int
	primary  int // early fires of the checkpoint timer
	shutdown bool
}

func c05Scenario(cf c05Cfg) *scenario {
	s1 := time.Date(2021, 3, 1, 11, 0, 0, 0, time.UTC)
	wrF := func(w *world.World, d *vos.Device, tag int32) {
		d.Mark("issue", fmt.Sprint(tag))
		if err := w.WriteCS(kF, csFixed([]time.Time{s1}, []string{"V"}, []any{[]int32{tag}}), false); err == nil {
			d.Mark("ack", fmt.Sprint(tag))
		}
	}
	return &scenario{
		name: cf.name,
		body: func(x *execCtx) {
			vrt.Branching(false)
			w, obs := world.Start(world.Config{BackgroundSync: true, WALRotateInterval: cf.rotate})
			if !obs.OK() {
				x.failed = "startup: " + obs.String()
				return
			}
			vrt.Quiesce()
			d := x.dev
			// an acknowledged, un-checkpointed write exists before the concurrent part
			d.Mark("issue", "1")
			if err := w.WriteCS(kF, csFixed([]time.Time{tS1}, []string{"V"}, []any{[]int32{1}}), false); err != nil {
				x.failed = err.Error()
				return
			}
			d.Mark("ack", "1")
			vrt.Quiesce()
			vrt.Branching(true)
			vrt.AllowTimer(tickWALd, 1)
			vrt.AllowTimer(tickPrimaryd, cf.primary)
			var ths []*vrt.Thread
			ths = append(ths, vrt.Spawn("W1", func() {
				wrF(w, d, 100) // two writes to ONE interval by one thread: commit order = program order
				wrF(w, d, 101)
			}))
			ths = append(ths, vrt.Spawn("W2", func() {
				d.Mark("issue", "200")
				if err := w.WriteCS(kV, csVar([]time.Time{tV1}, []string{"V"}, []any{[]int32{200}}), true); err == nil {
					d.Mark("ack", "200")
				}
			}))
			if cf.shutdown {
				// the process exits when Shutdown returns: writers still blocked then stay unacknowledged
				sd := vrt.Spawn("Shutdown", func() {
					w.WAL.Shutdown()
					d.Mark("shutdown-returned", "")
				})
				ths = []*vrt.Thread{sd}
			}
			vrt.Join(ths...)
			// let the timers that still have budget fire (checkpoint / rotation after the writes)
			vrt.Quiesce()
		},
		judge: func(x *execCtx, sch *vrt.Sched) []mc.Violation {
			return c05Judge(x, cf)
		},
	}
}

func logHash(log []vos.Op) uint64 {
	var sb strings.Builder
	for _, op := range log {
		fmt.Fprintf(&sb, "%d|%s|%s|%d|%x;", op.Kind, op.Path, op.Path2, op.Off, mc.Hash(string(op.Data)))
	}
	return mc.Hash(sb.String())
}

// c05Ref: acknowledged / issued tags at prefix k.
func c05Ref(log []vos.Op, k int) (acked, issued map[int32]bool) {
	acked, issued = map[int32]bool{}, map[int32]bool{}
	for _, op := range log[:k] {
		if op.Kind != vos.OpMark {
			continue
		}
		var t int32
		fmt.Sscan(op.Path2, &t)
		switch op.Path {
		case "issue":
			issued[t] = true
		case "ack":
			acked[t] = true
		}
	}
	return
}

// c05Check judges one recovered image against the reference (end-to-end oracle (a)).
func c05Check(r *recovered, acked, issued map[int32]bool) (string, string) {
	if !r.start.OK() {
		// restart failures are C03's subject; here only: an acknowledged commit must not become unrecoverable
		return "", ""
	}
	f := r.tables[kF]
	if f == nil {
		f = &bucketState{fixed: map[int64]int32{}}
	}
	v := r.tables[kV]
	if v == nil {
		v = &bucketState{}
	}
	if acked[1] && f.fixed[tS1.Unix()] != 1 {
		return "lost-acked|fixed", fmt.Sprintf("acknowledged write 1 is gone: F holds %s", f)
	}
	s1 := time.Date(2021, 3, 1, 11, 0, 0, 0, time.UTC).Unix()
	got, has := f.fixed[s1]
	switch {
	case acked[101]:
		if got != 101 {
			return "wrong-commit-order-or-lost|fixed", fmt.Sprintf("writes 100 then 101 to one interval were both acknowledged; after recovery the interval holds %d (present=%v)", got, has)
		}
	case acked[100]:
		if got != 100 && !(got == 101 && issued[101]) {
			return "lost-acked|fixed", fmt.Sprintf("write 100 acknowledged (101 issued=%v); after recovery the interval holds %d (present=%v)", issued[101], got, has)
		}
	default:
		if has && !(got == 100 && issued[100]) && !(got == 101 && issued[101]) {
			return "phantom|fixed", fmt.Sprintf("interval holds %d although no such write was issued", got)
		}
	}
	n200 := 0
	for _, t := range v.recs {
		if t == 200 {
			n200++
		} else {
			return "phantom|variable", fmt.Sprintf("variable bucket holds record %d that was never issued", t)
		}
	}
	if acked[200] && n200 == 0 {
		return "lost-acked|variable", "acknowledged variable record 200 is gone after recovery"
	}
	if n200 > 0 && !issued[200] {
		return "phantom|variable", "record 200 present before it was issued"
	}
	return "", ""
}

func c05Recover(img *vos.FS) *recovered {
	h := fsHash(img)
	if r, ok := c05Images[h]; ok {
		return r
	}
	r := recoverImage(img, false)
	c05Images[h] = r
	return r
}

// walModel runs the protocol acceptor over a device log; it returns the rule hints that fired:
// each names a crash prefix and the writes to drop there (the witness to execute).
type hint struct {
	rule string
	k    int   // crash prefix
	lost []int // indices of data writes lost at the power failure
}

func walModel(log []vos.Op) (hints []hint, events int) {
	var wal string
	for _, op := range log {
		if op.Kind == vos.OpCreate && strings.HasSuffix(op.Path, ".walfile") {
			wal = op.Path
		}
	}
	var cur []byte
	apply := func(op *vos.Op) {
		switch op.Kind {
		case vos.OpWrite:
			if n := int(op.Off) + len(op.Data); n > len(cur) {
				cur = append(cur, make([]byte, n-len(cur))...)
			}
			copy(cur[op.Off:], op.Data)
		case vos.OpTruncate:
			if int(op.Off) < len(cur) {
				cur = cur[:op.Off]
			}
		}
	}
	var durable []byte
	volatilePrimary := func(k int) []int {
		var l []int
		for _, i := range volatileWrites(log, k) {
			if strings.HasSuffix(log[i].Path, ".bin") && log[i].Off >= 37024 {
				l = append(l, i)
			}
		}
		return l
	}
	for k := range log {
		op := &log[k]
		switch {
		case op.Kind == vos.OpMark && op.Path == "ack":
			events++
			var t int32
			fmt.Sscan(op.Path2, &t)
			// R2: acknowledged only after a synced commit record
			if !committedTags(durable)[t] {
				var lost []int
				for _, i := range volatileWrites(log, k) {
					if log[i].Path == wal {
						lost = append(lost, i)
					}
				}
				hints = append(hints, hint{"R2:ack-before-synced-commit", k + 1, lost})
			}
		case op.Path == wal && op.Kind == vos.OpFsync, op.Kind == vos.OpSyncAll:
			events++
			durable = append([]byte{}, cur...)
		case op.Path == wal && op.Kind == vos.OpTruncate:
			events++
			// R5: truncate only when every TG in the log is covered by a completed checkpoint
			msgs := mc.DecodeWAL(cur)
			ck := int64(-1)
			for _, m := range msgs {
				if m.Kind == "TI" && m.Dest == 1 && m.Status == 2 && m.TGID > ck {
					ck = m.TGID
				}
			}
			for _, m := range msgs {
				if m.Kind == "TG" && m.TGID > ck {
					hints = append(hints, hint{"R5:truncate-with-uncheckpointed-tg", k + 1, volatilePrimary(k + 1)})
					break
				}
			}
			apply(op)
		case op.Path == wal && op.Kind == vos.OpWrite:
			events++
			// R4: CHECKPOINT COMMITCOMPLETE only after a global sync that follows the primary writes
			if len(op.Data) == 11 && op.Data[0] == 1 && op.Data[9] == 1 && op.Data[10] == 2 {
				if vp := volatilePrimary(k); len(vp) > 0 {
					// the record becomes durable at the next WAL fsync: crash there, dropping those primary writes
					kk := len(log)
					for j := k + 1; j < len(log); j++ {
						if log[j].Path == wal && log[j].Kind == vos.OpFsync {
							kk = j + 1
							break
						}
					}
					hints = append(hints, hint{"R4:checkpoint-complete-before-primary-synced", kk, vp})
				}
			}
			apply(op)
		}
	}
	return hints, events
}

func c05Judge(x *execCtx, cf c05Cfg) (vs []mc.Violation) {
	log := x.dev.Log()
	lh := logHash(log)
	nAck := 0
	for _, op := range log {
		if op.Kind == vos.OpMark && op.Path == "ack" {
			nAck++
		}
	}
	x.data["outcome"] = fmt.Sprintf("acks=%d", nAck)
	if c05Logs[lh] {
		x.data["outcome"] = fmt.Sprintf("acks=%d,same-log", nAck)
		return nil
	}
	defer func() {
		if len(vs) == 0 {
			c05Logs[lh] = true // only violation-free logs are skipped next time (a violating case must reproduce on re-run)
		}
	}()
	base := world.FreshDeviceFS()
	// (a) every crash prefix of this distinct log (process crash)
	fs := base.Clone()
	for k := 0; k <= len(log); k++ {
		if k > 0 {
			fs.Apply(&log[k-1])
			if log[k-1].Kind == vos.OpMark && log[k-1].Path != "ack" {
				continue
			}
		}
		r := c05Recover(fs.Clone())
		acked, issued := c05Ref(log, k)
		if sig, what := c05Check(r, acked, issued); sig != "" {
			ph := "idle"
			if k > 0 {
				ph = fmt.Sprintf("%s:%s", log[k-1].Kind, pathClass(log[k-1].Path))
			}
			vs = append(vs, mc.Violation{Sig: sig + "|process-crash", What: "[after " + ph + "] " + fmt.Sprintf("process crash after device op %d/%d of this execution: %s", k, len(log), what)})
			break
		}
	}
	// (b) protocol model as trace acceptor; broken rules become directed witnesses
	hints, _ := walModel(log)
	seen := map[string]bool{}
	for _, h := range hints {
		if seen[h.rule] {
			continue
		}
		seen[h.rule] = true
		img := base.Clone()
		lost := map[int]bool{}
		for _, i := range h.lost {
			lost[i] = true
		}
		for i := 0; i < h.k && i < len(log); i++ {
			if lost[i] {
				img.ApplyLost(&log[i], 0)
			} else {
				img.Apply(&log[i])
			}
		}
		r := c05Recover(img)
		acked, issued := c05Ref(log, h.k)
		if sig, what := c05Check(r, acked, issued); sig != "" {
			vs = append(vs, mc.Violation{Sig: sig + "|power-loss|rule:" + h.rule, What: fmt.Sprintf("protocol rule %s broken; witness: power loss after device op %d dropping %d un-synced write(s): %s", h.rule, h.k, len(h.lost), what)})
		} else {
			x.note("MODEL-MISMATCH rule %s fired without a failing witness", h.rule)
		}
	}
	if len(hints) == 0 {
		x.data["model"] = "accepted"
	}
	return vs
}

func pathClass(p string) string {
	switch {
	case strings.HasSuffix(p, ".walfile"):
		return "wal"
	case strings.HasSuffix(p, ".bin"):
		return "primary"
	case p == "":
		return "global"
	}
	return "catalog"
}

var c05Scens = []*scenario{
	c05Scenario(c05Cfg{"SyncWAL + writer(2 writes, one interval) + variable writer + WAL timer + checkpoint timer, rotation every checkpoint", 1, 1, false}),
	c05Scenario(c05Cfg{"SyncWAL + 2 writers + timers, rotation every 2nd checkpoint (2 checkpoint fires) + graceful shutdown", 2, 2, true}),
}

func init() {
	mc.Def(mc.Check{
		ID:    "C05",
		Level: "model_checking",
		Rule: "threads: the real SyncWAL loop + W1 (two writes to ONE fixed interval: commit order = program order) + W2 (variable write), after one acknowledged un-checkpointed write; timers: WAL flush (<=1 early fire), checkpoint (<=1, rotation every checkpoint; second scenario <=2 with rotation every 2nd checkpoint plus a Shutdown thread); " +
			"ALL interleavings with <=2 deviations (thorough: 3, ended by the wall-clock guard with exhaustive:false if not completed); for every DISTINCT device log EVERY crash prefix is restarted through the real startup path (recoveries memoised by image hash) and judged: acknowledged commits recovered, the later of two commits to one interval wins, nothing un-issued appears; " +
			"every log is also run through the WAL protocol model (rules R2 ack-after-synced-commit, R4 checkpoint-complete-after-primary-synced, R5 truncate-only-when-checkpointed): a broken rule makes the checker execute the power-loss witness for that rule and the end-to-end oracle decides. " +
			"states = distinct (device image) recovered; transitions = scheduler steps; traces_validated = executions whose log the protocol model accepted or whose witness was judged",
		Assume:   []string{"process-crash model for the enumerated prefixes; power loss only for rule-directed witnesses (quick) ", "UTC", "restart failures themselves are judged by C03"},
		QuickMax: 8 * time.Minute, ThorMax: 30 * time.Minute,
		Extra:    nil,
	}, schedEnum(c05Scens, func(c *mc.Ctx, si int) int {
		if c.Thorough() {
			return 3
		}
		return 2
	}), schedRun(c05Scens, "C05"))
}

var _ = sort.Strings
