package checks

import (
	"fmt"
	"time"

	"github.com/alpacahq/marketstore/v4/verif/mc"
	"github.com/alpacahq/marketstore/v4/verif/rt/vos"
	"github.com/alpacahq/marketstore/v4/verif/rt/vrt"
	"github.com/alpacahq/marketstore/v4/verif/rt/vsync"
	"github.com/alpacahq/marketstore/v4/verif/world"
)

// vrt-smoke: one scripted execution of the real SyncWAL loop under the controlled scheduler
// (development aid; also run by bin/setup as a self-test of the runtime).

type smokeSpec struct{ N int }

func init() {
	mc.Def(mc.Check{ID: "vrt-smoke", Level: "exploration", Rule: "self-test of the controlled runtime", Shards: 1, MinOutcom: 1},
		func(c *mc.Ctx, yield func(smokeSpec)) { yield(smokeSpec{1}); yield(smokeSpec{2}) },
		func(c *mc.Ctx, s smokeSpec) {
			world.FreshDevice()
			var rows int
			var trace []string
			sch := vrt.Run(nil, func(sc *vrt.Sched) { sc.KeepTrace = true; sc.NoForcedTimers = true }, func() {
				w, obs := world.Start(world.Config{BackgroundSync: true, WALRotateInterval: 1})
				if !obs.OK() {
					trace = append(trace, "start failed: "+obs.String())
					return
				}
				vrt.Quiesce() // let SyncWAL and the trigger dispatcher reach their blocking points
				t0 := time.Date(2021, 3, 1, 10, 0, 0, 0, time.UTC)
				for i := 0; i < s.N; i++ {
					err := w.WriteCS("A/1Min/X", csFixed([]time.Time{t0.Add(time.Duration(i) * time.Minute)}, []string{"V"}, []any{[]int32{int32(i + 1)}}), false)
					trace = append(trace, fmt.Sprint("write returned ", err))
				}
				vrt.Fire(5 * time.Minute)
				vrt.Quiesce()
				tab, err := w.QueryAll("A/1Min/X")
				trace = append(trace, fmt.Sprint("query ", tab, err))
				rows = tab.Len()
				vrt.AllowTimer(5*time.Millisecond, 1) // the 5 ms check ticker is what lets the loop notice the shutdown flag
				w.WAL.Shutdown()
				trace = append(trace, "shutdown returned")
			})
			c.Eval(s.N, true)
			c.Outcome(fmt.Sprintf("rows=%d", rows))
			if rows != s.N || sch.Deadlock || sch.Livelock || len(sch.Panics) > 0 {
				c.Violate("smoke-failed", fmt.Sprintf("rows=%d deadlock=%v livelock=%v panics=%v trace=%v sched=%v devlog=%d", rows, sch.Deadlock, sch.Livelock, sch.Panics, trace, sch.Trace, vos.Cur().LogLen()))
			}
			c.Sample(map[string]any{"n": s.N, "harness_trace": trace, "steps": sch.Steps, "threads": len(sch.Threads), "device_ops": vos.Cur().LogLen()})
		})
}

// hb-selftest: the happens-before race detector (rt/vrt/hb.go) on hand-written programs with a known answer:
// it must report the unsynchronised pairs and stay silent when the accesses are ordered by a mutex, an
// RW-mutex, a channel, a wait group, a once or go/join — whatever the schedule.

type hbSpec struct {
	Case   int   `json:"case"`
	Prefix []int `json:"prefix,omitempty"`
}

type hbCase struct {
	name  string
	races int // expected number of distinct racing pairs
	body  func(x *int, y *int)
}

var hbCases = []hbCase{
	{"two unsynchronised writers", 1, func(x, y *int) {
		a := vrt.Spawn("A", func() { *vrt.W(x, "t.x@a:1") = 1 })
		b := vrt.Spawn("B", func() { *vrt.W(x, "t.x@b:1") = 2 })
		vrt.Join(a, b)
	}},
	{"unsynchronised reader and writer", 1, func(x, y *int) {
		a := vrt.Spawn("A", func() { *vrt.W(x, "t.x@a:1") = 1 })
		b := vrt.Spawn("B", func() { _ = *vrt.R(x, "t.x@b:1") })
		vrt.Join(a, b)
	}},
	{"two readers", 0, func(x, y *int) {
		a := vrt.Spawn("A", func() { _ = *vrt.R(x, "t.x@a:1") })
		b := vrt.Spawn("B", func() { _ = *vrt.R(x, "t.x@b:1") })
		vrt.Join(a, b)
	}},
	{"writers under one mutex", 0, func(x, y *int) {
		var mu vsync.Mutex
		f := func(s string) func() {
			return func() { mu.Lock(); *vrt.W(x, "t.x@"+s) = 1; mu.Unlock() }
		}
		a, b := vrt.Spawn("A", f("a:1")), vrt.Spawn("B", f("b:1"))
		vrt.Join(a, b)
	}},
	{"writers under different mutexes", 1, func(x, y *int) {
		var m1, m2 vsync.Mutex
		a := vrt.Spawn("A", func() { m1.Lock(); *vrt.W(x, "t.x@a:1") = 1; m1.Unlock() })
		b := vrt.Spawn("B", func() { m2.Lock(); *vrt.W(x, "t.x@b:1") = 2; m2.Unlock() })
		vrt.Join(a, b)
	}},
	{"reader under RLock, writer under Lock", 0, func(x, y *int) {
		var mu vsync.RWMutex
		a := vrt.Spawn("A", func() { mu.Lock(); *vrt.W(x, "t.x@a:1") = 1; mu.Unlock() })
		b := vrt.Spawn("B", func() { mu.RLock(); _ = *vrt.R(x, "t.x@b:1"); mu.RUnlock() })
		vrt.Join(a, b)
	}},
	{"message passing over a channel", 0, func(x, y *int) {
		ch := make(chan int, 1)
		a := vrt.Spawn("A", func() { *vrt.W(x, "t.x@a:1") = 1; vrt.Send(ch, 1) })
		b := vrt.Spawn("B", func() { vrt.Recv(ch); _ = *vrt.R(x, "t.x@b:1") })
		vrt.Join(a, b)
	}},
	{"write after the send is not ordered", 1, func(x, y *int) {
		ch := make(chan int, 1)
		a := vrt.Spawn("A", func() { vrt.Send(ch, 1); *vrt.W(x, "t.x@a:2") = 1 })
		b := vrt.Spawn("B", func() { vrt.Recv(ch); _ = *vrt.R(x, "t.x@b:1") })
		vrt.Join(a, b)
	}},
	{"wait group", 0, func(x, y *int) {
		var wg vsync.WaitGroup
		wg.Add(1)
		a := vrt.Spawn("A", func() { *vrt.W(x, "t.x@a:1") = 1; wg.Done() })
		b := vrt.Spawn("B", func() { wg.Wait(); _ = *vrt.R(x, "t.x@b:1") })
		vrt.Join(a, b)
	}},
	{"once-initialised field read through the once", 0, func(x, y *int) {
		var o vsync.Once
		f := func(s string) func() {
			return func() { o.Do(func() { *vrt.W(x, "t.x@init") = 7 }); _ = *vrt.R(x, "t.x@"+s) }
		}
		a, b := vrt.Spawn("A", f("a:1")), vrt.Spawn("B", f("b:1"))
		vrt.Join(a, b)
	}},
	{"once-initialised field read WITHOUT the once", 1, func(x, y *int) {
		var o vsync.Once
		a := vrt.Spawn("A", func() { o.Do(func() { *vrt.W(x, "t.x@init") = 7 }) })
		b := vrt.Spawn("B", func() { _ = *vrt.R(x, "t.x@b:1") })
		vrt.Join(a, b)
	}},
	{"parent writes before go, child reads; parent reads after join", 0, func(x, y *int) {
		*vrt.W(x, "t.x@p:1") = 1
		a := vrt.Spawn("A", func() { _ = *vrt.R(x, "t.x@a:1"); *vrt.W(y, "t.y@a:2") = 2 })
		vrt.Join(a)
		_ = *vrt.R(y, "t.y@p:2")
	}},
	{"different variables", 0, func(x, y *int) {
		a := vrt.Spawn("A", func() { *vrt.W(x, "t.x@a:1") = 1 })
		b := vrt.Spawn("B", func() { *vrt.W(y, "t.y@b:1") = 2 })
		vrt.Join(a, b)
	}},
}

func init() {
	mc.Def(mc.Check{ID: "hb-selftest", Level: "exploration", Rule: "13 two-thread programs with a known number of racing pairs; ALL interleavings of each (unbounded: the programs are tiny); the detector must report exactly the expected pairs in EVERY schedule", Shards: 1, MinOutcom: 2},
		func(c *mc.Ctx, yield func(hbSpec)) {
			for i := range hbCases {
				yield(hbSpec{Case: i})
			}
		},
		func(c *mc.Ctx, s hbSpec) {
			hc := hbCases[s.Case]
			var rec func(prefix []int)
			rec = func(prefix []int) {
				world.FreshDevice()
				x, y := new(int), new(int)
				sch := vrt.Run(prefix, nil, func() { hc.body(x, y) })
				c.Eval(fmt.Sprint(s.Case, prefix), true)
				c.Outcome(fmt.Sprintf("races=%d", len(sch.Races)))
				if len(sch.Races) != hc.races || sch.Deadlock || len(sch.Panics) > 0 {
					c.Violate("hb-selftest|"+hc.name, fmt.Sprintf("%q, schedule %v: %d racing pair(s) reported (%v), expected %d; deadlock=%v panics=%v", hc.name, prefix, len(sch.Races), sch.RaceSummary(), hc.races, sch.Deadlock, sch.Panics))
				}
				ch, _ := choicesOf(sch)
				for i := len(prefix); i < len(sch.Points); i++ {
					for alt := 1; alt < len(sch.Points[i].Options); alt++ {
						rec(append(append([]int{}, ch[:i]...), alt))
					}
				}
			}
			rec(nil)
			c.Sample(map[string]any{"program": hc.name, "expected_racing_pairs": hc.races})
		})
}
