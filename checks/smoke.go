package checks

import (
	"fmt"
	"time"

	"github.com/alpacahq/marketstore/v4/verif/mc"
	"github.com/alpacahq/marketstore/v4/verif/rt/vos"
	"github.com/alpacahq/marketstore/v4/verif/rt/vrt"
	"github.com/alpacahq/marketstore/v4/verif/world"
)

// vrt-smoke: one scripted execution of the real SyncWAL loop under the controlled scheduler
// (development aid; also run by bin/setup as a self-test of the runtime).

type smokeSpec struct{ N int }

func init() {
	mc.Def(mc.Check{ID: "vrt-smoke", Level: "exploration", Rule: "self-test of the controlled runtime", Shards: 1, MinOutcom: 1},
		func(c *mc.Ctx, yield func(smokeSpec)) { yield(smokeSpec{1}); yield(smokeSpec{2}) },
		func(c *mc.Ctx, s smokeSpec) {
			world.FreshDevice()
			var rows int
			var trace []string
			sch := vrt.Run(nil, func(sc *vrt.Sched) { sc.KeepTrace = true; sc.NoForcedTimers = true }, func() {
				w, obs := world.Start(world.Config{BackgroundSync: true, WALRotateInterval: 1})
				if !obs.OK() {
					trace = append(trace, "start failed: "+obs.String())
					return
				}
				vrt.Quiesce() // let SyncWAL and the trigger dispatcher reach their blocking points
				t0 := time.Date(2021, 3, 1, 10, 0, 0, 0, time.UTC)
				for i := 0; i < s.N; i++ {
					err := w.WriteCS("A/1Min/X", csFixed([]time.Time{t0.Add(time.Duration(i) * time.Minute)}, []string{"V"}, []any{[]int32{int32(i + 1)}}), false)
					trace = append(trace, fmt.Sprint("write returned ", err))
				}
				vrt.Fire(5 * time.Minute)
				vrt.Quiesce()
				tab, err := w.QueryAll("A/1Min/X")
				trace = append(trace, fmt.Sprint("query ", tab, err))
				rows = tab.Len()
				vrt.AllowTimer(5*time.Millisecond, 1) // the 5 ms check ticker is what lets the loop notice the shutdown flag
				w.WAL.Shutdown()
				trace = append(trace, "shutdown returned")
			})
			c.Eval(s.N, true)
			c.Outcome(fmt.Sprintf("rows=%d", rows))
			if rows != s.N || sch.Deadlock || sch.Livelock || len(sch.Panics) > 0 {
				c.Violate("smoke-failed", fmt.Sprintf("rows=%d deadlock=%v livelock=%v panics=%v trace=%v sched=%v devlog=%d", rows, sch.Deadlock, sch.Livelock, sch.Panics, trace, sch.Trace, vos.Cur().LogLen()))
			}
			c.Sample(map[string]any{"n": s.N, "harness_trace": trace, "steps": sch.Steps, "threads": len(sch.Threads), "device_ops": vos.Cur().LogLen()})
		})
}
