package checks

import (
	"fmt"
	"sort"
	"strings"
	"time"

	"github.com/alpacahq/marketstore/v4/contrib/ondiskagg/aggtrigger"
	"github.com/alpacahq/marketstore/v4/plugins/trigger"
	"github.com/alpacahq/marketstore/v4/verif/mc"
	"github.com/alpacahq/marketstore/v4/verif/rt/vrt"
	"github.com/alpacahq/marketstore/v4/verif/world"
)

// C24 On-disk aggregation matches the base data.

type c24Spec struct {
	Dests []string `json:"dests"`
	Hist  [][]int  `json:"hist"` // writes; each a list of slot indices in the order given to the server
}

var c24Slots = []time.Duration{0, 1 * time.Minute, 5 * time.Minute, 7 * time.Minute, 10 * time.Minute, 14 * time.Minute}
var c24Base = time.Date(2021, 3, 1, 10, 0, 0, 0, time.UTC)

const c24Key = "AGG/1Min/OHLCV"

type bar struct{ o, h, l, c float32; v int32 }

func c24Bar(w, s int) bar {
	o := float32(100*(w+1) + s)
	return bar{o, o + 5 + float32(s), o - 5 - float32(s), o + 1, int32(10*(w+1) + s + 1)}
}

func init() {
	mc.Def(mc.Check{
		ID:    "C24",
		Level: "exploration",
		Rule: "base 1Min bucket (Open, High, Low, Close f4, Volume i4) with the real on-disk aggregation trigger registered through the real dispatcher, destinations [5Min] and [5Min,15Min]; a write = an ordered list of 1-3 bars over a 6-slot grid spanning three 5-minute windows (ascending and descending order); " +
			"every history of <=2 writes (thorough: plus every history of 3 single-bar or ascending two-bar writes); after each write the system runs to quiescence (real SyncWAL loop, scripted scheduler) and every destination bucket is compared with a group-by over the base bars CURRENTLY stored. non-trivial = >=2 writes",
		Assume:   []string{"UTC", "no market-hours filter"},
		QuickMax: 8 * time.Minute, ThorMax: 40 * time.Minute,
	}, c24Enum, c24Run)
}

func c24Enum(c *mc.Ctx, yield func(c24Spec)) {
	var forms [][]int
	var rec func(cur []int, from int)
	rec = func(cur []int, from int) {
		if len(cur) > 0 {
			forms = append(forms, append([]int{}, cur...))
			if len(cur) >= 2 {
				r := make([]int, len(cur))
				for i := range cur {
					r[i] = cur[len(cur)-1-i]
				}
				forms = append(forms, r)
			}
		}
		if len(cur) == 3 {
			return
		}
		for s := from; s < len(c24Slots); s++ {
			rec(append(cur, s), s+1)
		}
	}
	rec(nil, 0)
	for _, dests := range [][]string{{"5Min"}, {"5Min", "15Min"}} {
		for _, a := range forms {
			yield(c24Spec{dests, [][]int{a}})
		}
		second := forms
		if !c.Thorough() {
			second = nil
			for _, f := range forms {
				if len(f) <= 2 {
					second = append(second, f)
				}
			}
		}
		for _, a := range forms {
			for _, b := range second {
				yield(c24Spec{dests, [][]int{a, b}})
			}
		}
		if c.Thorough() {
			var small [][]int
			for _, f := range forms {
				if len(f) == 1 || (len(f) == 2 && f[0] < f[1]) {
					small = append(small, f)
				}
			}
			for _, a := range small {
				for _, b := range small {
					for _, d := range small {
						yield(c24Spec{dests, [][]int{a, b, d}})
					}
				}
			}
		}
	}
}

func c24HistClass(h [][]int) string {
	seen := map[int]bool{}
	maxSlot := -1
	cls := "in-order"
	for wi, w := range h {
		for i, s := range w {
			if i > 0 && s < w[i-1] && cls == "in-order" {
				cls = "out-of-order-rows"
			}
			if seen[s] {
				return "correction"
			}
			if wi > 0 && s < maxSlot {
				if s/2 < maxSlot/2 {
					cls = "earlier-window"
				} else if cls == "in-order" {
					cls = "out-of-order"
				}
			}
		}
		for _, s := range w {
			seen[s] = true
			if s > maxSlot {
				maxSlot = s
			}
		}
	}
	return cls
}

func c24Run(c *mc.Ctx, s c24Spec) {
	world.FreshDevice()
	conf := map[string]interface{}{"destinations": s.Dests}
	trig, err := aggtrigger.NewTrigger(conf)
	if err != nil {
		c.Violate("trigger-config", err.Error())
		return
	}
	cur := map[int]bar{}
	var viol []mc.Violation
	var failed string
	cls := c24HistClass(s.Hist)
	sch := vrt.Run(nil, func(sc *vrt.Sched) { sc.NoForcedTimers = true }, func() {
		w, obs := world.Start(world.Config{BackgroundSync: true, Triggers: []*trigger.Matcher{trigger.NewMatcher(trig, "*/1Min/*")}})
		if !obs.OK() {
			failed = "startup: " + obs.String()
			return
		}
		vrt.Quiesce()
		for wi, wr := range s.Hist {
			var ts []time.Time
			var o, h, l, cl []float32
			var v []int32
			for _, sl := range wr {
				b := c24Bar(wi, sl)
				ts = append(ts, c24Base.Add(c24Slots[sl]))
				o, h, l, cl, v = append(o, b.o), append(h, b.h), append(l, b.l), append(cl, b.c), append(v, b.v)
				cur[sl] = b
			}
			if err := w.WriteCS(c24Key, csFixed(ts, []string{"Open", "High", "Low", "Close", "Volume"}, []any{o, h, l, cl, v}), false); err != nil {
				failed = fmt.Sprintf("base write %d: %v", wi, err)
				return
			}
			vrt.Quiesce() // trigger fired, aggregates written and flushed
			for _, d := range s.Dests {
				if sig, what := c24Check(w, d, cur); sig != "" && len(viol) == 0 {
					viol = append(viol, mc.Violation{Sig: sig + "|" + d + "|" + cls, What: fmt.Sprintf("destinations %v, history %v, after write %d: %s", s.Dests, s.Hist, wi, what)})
				}
			}
		}
	})
	c.Eval(fmt.Sprint(s), len(s.Hist) >= 2)
	if failed != "" || len(sch.Panics) > 0 || sch.Deadlock || sch.Livelock {
		c.Violate("harness-failed", fmt.Sprint(failed, sch.Panics, sch.DeadInfo, sch.Livelock))
		return
	}
	for _, v := range viol {
		c.Violate(v.Sig, v.What)
	}
	out := "ok"
	if len(viol) > 0 {
		out = "differs"
	}
	c.Outcome(out + "/" + cls)
	if len(s.Hist) == 2 && len(s.Hist[0]) == 2 && s.Hist[0][0] == 1 {
		c.Sample(map[string]any{"destinations": s.Dests, "history": s.Hist, "class": cls, "base_bars": len(cur)})
	}
}

func c24Check(w *world.World, dest string, cur map[int]bar) (string, string) {
	tf := map[string]time.Duration{"5Min": 5 * time.Minute, "15Min": 15 * time.Minute}[dest]
	// expected: group-by over the bars currently stored
	type agg struct {
		o, h, l, c float32
		v          int32
		n          int
	}
	exp := map[int64]*agg{}
	var slots []int
	for s := range cur {
		slots = append(slots, s)
	}
	sort.Ints(slots)
	for _, s := range slots {
		b := cur[s]
		e := intervalStart(c24Base.Add(c24Slots[s]), tf, time.UTC).Unix()
		a := exp[e]
		if a == nil {
			a = &agg{o: b.o, h: b.h, l: b.l}
			exp[e] = a
		}
		if b.h > a.h {
			a.h = b.h
		}
		if b.l < a.l {
			a.l = b.l
		}
		a.c = b.c
		a.v += b.v
		a.n++
	}
	tab, err := w.Query("AGG/"+dest+"/OHLCV", c24Base.Add(-time.Hour), c24Base.Add(2*time.Hour), 0, false, nil)
	if err != nil {
		return "missing-window", fmt.Sprintf("destination %s cannot be queried: %v", dest, err)
	}
	got := map[int64][]any{}
	ei := tab.Col("Epoch")
	for _, r := range tab.Rows {
		got[r[ei].(int64)] = r
	}
	var es []int64
	for e := range exp {
		es = append(es, e)
	}
	sort.Slice(es, func(i, j int) bool { return es[i] < es[j] })
	for _, e := range es {
		a := exp[e]
		r, ok := got[e]
		if !ok {
			return "missing-window", fmt.Sprintf("%s window %s has %d base bars but no aggregate bar", dest, time.Unix(e, 0).UTC().Format("15:04"), a.n)
		}
		g := fmt.Sprintf("O=%v H=%v L=%v C=%v V=%v", r[tab.Col("Open")], r[tab.Col("High")], r[tab.Col("Low")], r[tab.Col("Close")], r[tab.Col("Volume")])
		x := fmt.Sprintf("O=%v H=%v L=%v C=%v V=%v", a.o, a.h, a.l, a.c, a.v)
		if g != x {
			var fields []string
			gf, xf := strings.Fields(g), strings.Fields(x)
			for i := range gf {
				if gf[i] != xf[i] {
					fields = append(fields, strings.SplitN(gf[i], "=", 2)[0])
				}
			}
			return "wrong-aggregate:" + strings.Join(fields, ""), fmt.Sprintf("%s window %s holds %s, the %d base bars currently stored give %s", dest, time.Unix(e, 0).UTC().Format("15:04"), g, a.n, x)
		}
	}
	for e := range got {
		if _, ok := exp[e]; !ok {
			return "extra-window", fmt.Sprintf("%s holds a bar for window %s without base bars", dest, time.Unix(e, 0).UTC().Format("15:04"))
		}
	}
	return "", ""
}
