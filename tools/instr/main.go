// instr: typed source rewriter that binds the model-checking runtime (vos, vrt, vsync) to the
// *current* working tree of the repository without editing it. It loads the configured packages
// with go/packages, rewrites them into <out>/src and emits <out>/overlay.json for
// `go build -tags verif -overlay`. The overlay also maps the framework and harness sources into
// virtual packages inside the repo module and adds per-package export files.
//
// The rewriter is generic (driven by syntax and types, not by line numbers); a construct it cannot
// transform makes it fail loudly (exit 2), it never silently skips a site.
package main

import (
	"bytes"
	"encoding/json"
	"flag"
	"fmt"
	"go/ast"
	"go/format"
	"go/token"
	"go/types"
	"os"
	"path/filepath"
	"sort"
	"strconv"
	"strings"

	"golang.org/x/tools/go/ast/astutil"
	"golang.org/x/tools/go/packages"
)

const mod = "github.com/alpacahq/marketstore/v4"

const (
	vosPath   = mod + "/verif/rt/vos"
	vrtPath   = mod + "/verif/rt/vrt"
	vsyncPath = mod + "/verif/rt/vsync"
)

type pkgCfg struct {
	os   bool // "os" -> vos, syscall.Sync -> vos.SyncAll
	conc bool // channels, go, select, sync, global-variable points
	tm   bool // time.Now/Sleep/NewTicker/...
	mapr bool // canonical map iteration order
	fat  bool // utils/log: zap Fatal -> Panic
}

// The list is data: adding a package is one line.
var cfg = map[string]pkgCfg{
	"executor":                     {os: true, conc: true, tm: true, mapr: true},
	"executor/wal":                 {os: true, conc: true, tm: true, mapr: true},
	"executor/buffile":             {os: true, mapr: true},
	"catalog":                      {os: true, conc: true, tm: true, mapr: true},
	"utils/io":                     {os: true, conc: true, tm: true, mapr: true},
	"internal/di":                  {os: true, conc: true, tm: true, mapr: true},
	"replication":                  {conc: true, tm: true, mapr: true},
	"plugins/trigger":              {conc: true, mapr: true},
	"contrib/ondiskagg/aggtrigger": {conc: true, tm: true, mapr: true},
	"frontend":                     {tm: true, mapr: true},
	"planner":                      {mapr: true},
	"sqlparser":                    {tm: true, mapr: true},
	"uda/count":                    {tm: true},
	"uda/min":                      {tm: true},
	"uda/max":                      {tm: true},
	"uda/avg":                      {tm: true},
	"utils/log":                    {fat: true},
	"cmd/connect/session":          {os: true, tm: true, mapr: true},
	"cmd/connect/loader":           {os: true, mapr: true},
}

// constants scaled down (see DESIGN 1.2 "scale-down").
var constRewrite = map[string]map[string]string{
	"executor": {"WriteChannelCommandDepth": "256"},
}

func fileExists(p string) bool { _, err := os.Stat(p); return err == nil }

func fatal(f string, a ...any) {
	fmt.Fprintf(os.Stderr, "instr: "+f+"\n", a...)
	os.Exit(2)
}

func main() {
	repo := flag.String("repo", "/repo", "repository root")
	verif := flag.String("verif", "/verif", "verif root")
	out := flag.String("out", "", "output directory")
	fallbackExports := flag.Bool("fallback-exports", false, "use <name>.fallback instead of <name>.go for the export hooks (an export no longer compiles against this tree)")
	norewrite := flag.Bool("norewrite", false, "map only the virtual packages and export files (no source rewriting): overlay of the free-running -race binary")
	flag.Parse()
	if *out == "" {
		fatal("-out required")
	}
	var patterns []string
	for p := range cfg {
		patterns = append(patterns, mod+"/"+p)
	}
	sort.Strings(patterns)
	pc := &packages.Config{
		Mode: packages.NeedName | packages.NeedFiles | packages.NeedCompiledGoFiles | packages.NeedSyntax |
			packages.NeedTypes | packages.NeedTypesInfo | packages.NeedImports,
		Dir:        *repo,
		Env:        append(os.Environ(), "GOFLAGS=-mod=mod", "GOPROXY=off", "GOSUMDB=off", "GOTOOLCHAIN=local"),
		BuildFlags: []string{"-tags=verif"},
	}
	var pkgs []*packages.Package
	if !*norewrite {
		var err error
		pkgs, err = packages.Load(pc, patterns...)
		if err != nil {
			fatal("load: %v", err)
		}
	}
	overlay := map[string]string{}
	nerr := 0
	for _, p := range pkgs {
		for _, e := range p.Errors {
			fmt.Fprintf(os.Stderr, "instr: %s: %v\n", p.PkgPath, e)
			nerr++
		}
	}
	if nerr > 0 {
		fatal("%d package errors (the tree does not type-check)", nerr)
	}
	stats := map[string]int{}
	for _, p := range pkgs {
		rel := strings.TrimPrefix(p.PkgPath, mod+"/")
		c, ok := cfg[rel]
		if !ok || *norewrite {
			continue
		}
		for i, f := range p.Syntax {
			fn := p.CompiledGoFiles[i]
			if strings.HasSuffix(fn, "_test.go") || !strings.HasPrefix(fn, *repo+"/") {
				continue
			}
			r := &rewriter{pkg: p, file: f, cfg: c, rel: rel, stats: stats}
			changed := r.run()
			if !changed {
				continue
			}
			var buf bytes.Buffer
			if err := format.Node(&buf, p.Fset, f); err != nil {
				fatal("print %s: %v", fn, err)
			}
			dst := filepath.Join(*out, "src", strings.TrimPrefix(fn, *repo+"/"))
			os.MkdirAll(filepath.Dir(dst), 0o755)
			if err := os.WriteFile(dst, buf.Bytes(), 0o644); err != nil {
				fatal("%v", err)
			}
			overlay[fn] = dst
		}
	}
	// generated per-package reset of plain package-level variables (fresh globals per world)
	for _, p := range pkgs {
		rel := strings.TrimPrefix(p.PkgPath, mod+"/")
		if c, ok := cfg[rel]; ok && c.conc && !*norewrite {
			if src := genReset(p); src != "" {
				dst := filepath.Join(*out, "src", rel, "zz_verif_reset.go")
				os.MkdirAll(filepath.Dir(dst), 0o755)
				if err := os.WriteFile(dst, []byte(src), 0o644); err != nil {
					fatal("%v", err)
				}
				overlay[filepath.Join(*repo, rel, "zz_verif_reset.go")] = dst
			}
		}
	}
	// virtual packages
	for _, d := range []string{"rt/vos", "rt/vrt", "rt/vsync", "mc", "world", "checks", "cmd/mcheck", "race", "cmd/racepass"} {
		ents, _ := os.ReadDir(filepath.Join(*verif, d))
		for _, e := range ents {
			if e.IsDir() || !strings.HasSuffix(e.Name(), ".go") {
				continue
			}
			overlay[filepath.Join(*repo, "verif", d, e.Name())] = filepath.Join(*verif, d, e.Name())
		}
	}
	// export files: /verif/exports/<pkg rel path>/x.go -> /repo/<pkg rel path>/zz_verif_x.go
	filepath.Walk(filepath.Join(*verif, "exports"), func(p string, info os.FileInfo, err error) error {
		if err != nil || info.IsDir() || !strings.HasSuffix(p, ".go") {
			return nil
		}
		rel, _ := filepath.Rel(filepath.Join(*verif, "exports"), p)
		src := p
		if *fallbackExports {
			if fb := strings.TrimSuffix(p, ".go") + ".fallback"; fileExists(fb) {
				src = fb
			}
		}
		overlay[filepath.Join(*repo, filepath.Dir(rel), "zz_verif_"+filepath.Base(rel))] = src
		return nil
	})
	js, _ := json.MarshalIndent(map[string]any{"Replace": overlay}, "", " ")
	if err := os.WriteFile(filepath.Join(*out, "overlay.json"), js, 0o644); err != nil {
		fatal("%v", err)
	}
	var keys []string
	for k := range stats {
		keys = append(keys, k)
	}
	sort.Strings(keys)
	var sb strings.Builder
	for _, k := range keys {
		fmt.Fprintf(&sb, "%s=%d ", k, stats[k])
	}
	fmt.Printf("instr: %d files rewritten; sites: %s\n", len(overlay), sb.String())
	sj, _ := json.Marshal(stats)
	os.WriteFile(filepath.Join(*out, "instr_stats.json"), sj, 0o644)
}

type rewriter struct {
	pkg     *packages.Package
	file    *ast.File
	cfg     pkgCfg
	rel     string
	stats   map[string]int
	changed bool
	needVrt bool
	needVos bool
	tmp     int
}

func (r *rewriter) info() *types.Info { return r.pkg.TypesInfo }

func (r *rewriter) fresh(p string) string { r.tmp++; return fmt.Sprintf("_v%s%d", p, r.tmp) }

func (r *rewriter) pos(n ast.Node) string {
	p := r.pkg.Fset.Position(n.Pos())
	return fmt.Sprintf("%s:%d", filepath.Base(p.Filename), p.Line)
}

func ident(s string) *ast.Ident { return ast.NewIdent(s) }
func sel(x, s string) *ast.SelectorExpr {
	return &ast.SelectorExpr{X: ident(x), Sel: ident(s)}
}
func call(fun ast.Expr, args ...ast.Expr) *ast.CallExpr { return &ast.CallExpr{Fun: fun, Args: args} }
func strlit(s string) *ast.BasicLit {
	return &ast.BasicLit{Kind: token.STRING, Value: strconv.Quote(s)}
}
func (r *rewriter) vrt(name string, args ...ast.Expr) *ast.CallExpr {
	r.needVrt = true
	return call(sel("vrt", name), args...)
}

// importName returns the local name under which path is imported in this file ("" if not).
func (r *rewriter) importName(path string) string {
	for _, is := range r.file.Imports {
		p, _ := strconv.Unquote(is.Path.Value)
		if p == path {
			if is.Name != nil {
				return is.Name.Name
			}
			return filepath.Base(path)
		}
	}
	return ""
}

// isPkgSel reports whether e is <pkg>.<name> for imported package path.
func (r *rewriter) isPkgSel(e ast.Expr, path string) (string, bool) {
	se, ok := e.(*ast.SelectorExpr)
	if !ok {
		return "", false
	}
	id, ok := se.X.(*ast.Ident)
	if !ok {
		return "", false
	}
	pn, ok := r.info().Uses[id].(*types.PkgName)
	if !ok || pn.Imported().Path() != path {
		return "", false
	}
	return se.Sel.Name, true
}

func (r *rewriter) run() bool {
	f := r.file
	// strip comments except directives: the printer may otherwise misplace them around rewritten nodes
	var keep []*ast.CommentGroup
	for _, cg := range f.Comments {
		if cg.End() < f.Package {
			keep = append(keep, cg)
		}
	}
	if r.cfg.os {
		r.rewriteOS()
	}
	if r.cfg.fat {
		r.rewriteFatal()
	}
	if cr, ok := constRewrite[r.rel]; ok {
		r.rewriteConsts(cr)
	}
	if r.cfg.tm {
		r.rewriteTime()
	}
	if r.cfg.conc {
		r.rewriteSyncImport()
	}
	if r.cfg.conc || r.cfg.mapr {
		r.rewriteStmts()
	}
	if r.cfg.conc {
		r.rewriteMem()
	}
	if !r.changed {
		return false
	}
	f.Comments = keep
	stripDocs(f)
	if r.needVrt {
		astutil.AddNamedImport(r.pkg.Fset, f, "vrt", vrtPath)
	}
	if r.needVos {
		astutil.AddNamedImport(r.pkg.Fset, f, "vos", vosPath)
	}
	for _, p := range []string{"time", "syscall"} {
		if r.importName(p) != "" && !usesImportName(f, r.importName(p)) {
			astutil.DeleteImport(r.pkg.Fset, f, p)
		}
	}
	return true
}

func stripDocs(f *ast.File) {
	ast.Inspect(f, func(n ast.Node) bool {
		switch x := n.(type) {
		case *ast.FuncDecl:
			x.Doc = keepDirectives(x.Doc)
		case *ast.GenDecl:
			x.Doc = keepDirectives(x.Doc)
		case *ast.Field:
			x.Doc, x.Comment = nil, nil
		case *ast.ValueSpec:
			x.Doc, x.Comment = nil, nil
		case *ast.TypeSpec:
			x.Doc, x.Comment = nil, nil
		case *ast.ImportSpec:
			x.Doc, x.Comment = nil, nil
		}
		return true
	})
}

func keepDirectives(cg *ast.CommentGroup) *ast.CommentGroup {
	if cg == nil {
		return nil
	}
	var l []*ast.Comment
	for _, c := range cg.List {
		if strings.HasPrefix(c.Text, "//go:") {
			l = append(l, c)
		}
	}
	if len(l) == 0 {
		return nil
	}
	return &ast.CommentGroup{List: l}
}

func usesImportName(f *ast.File, name string) bool {
	used := false
	ast.Inspect(f, func(n ast.Node) bool {
		if se, ok := n.(*ast.SelectorExpr); ok {
			if id, ok := se.X.(*ast.Ident); ok && id.Name == name && id.Obj == nil {
				used = true
			}
		}
		return !used
	})
	return used
}

// ---- os ----

func (r *rewriter) rewriteOS() {
	for _, is := range r.file.Imports {
		p, _ := strconv.Unquote(is.Path.Value)
		if p == "os" {
			if is.Name == nil {
				is.Name = ident("os")
			}
			is.Path.Value = strconv.Quote(vosPath)
			is.EndPos = 0
			r.changed = true
			r.stats["os-import"]++
		}
		if p == "io/ioutil" {
			fatal("%s imports io/ioutil: not supported by the vos shim", r.pos(is))
		}
	}
	astutil.Apply(r.file, func(c *astutil.Cursor) bool {
		if ce, ok := c.Node().(*ast.CallExpr); ok {
			if name, ok := r.isPkgSel(ce.Fun, "syscall"); ok {
				if name != "Sync" {
					fatal("%s: syscall.%s not supported", r.pos(ce), name)
				}
				r.needVos = true
				ce.Fun = sel("vos", "SyncAll")
				r.changed = true
				r.stats["syncall"]++
			}
		}
		return true
	}, nil)
}

func (r *rewriter) rewriteFatal() {
	ast.Inspect(r.file, func(n ast.Node) bool {
		if se, ok := n.(*ast.SelectorExpr); ok {
			switch se.Sel.Name {
			case "Fatalf":
				se.Sel.Name = "Panicf"
				r.changed = true
			case "Fatal":
				if _, isCall := se.X.(*ast.CallExpr); isCall {
					se.Sel.Name = "Panic"
					r.changed = true
				}
			}
		}
		return true
	})
}

func (r *rewriter) rewriteConsts(m map[string]string) {
	for _, d := range r.file.Decls {
		gd, ok := d.(*ast.GenDecl)
		if !ok || gd.Tok != token.CONST {
			continue
		}
		for _, s := range gd.Specs {
			vs := s.(*ast.ValueSpec)
			for i, n := range vs.Names {
				if v, ok := m[n.Name]; ok && i < len(vs.Values) {
					vs.Values[i] = &ast.BasicLit{Kind: token.INT, Value: v}
					r.changed = true
					r.stats["const"]++
				}
			}
		}
	}
}

// ---- time ----

var timeFuncs = map[string]bool{"Now": true, "Since": true, "Sleep": true, "NewTicker": true, "After": true, "Tick": true, "Until": true}

func (r *rewriter) rewriteTime() {
	astutil.Apply(r.file, func(c *astutil.Cursor) bool {
		se, ok := c.Node().(*ast.SelectorExpr)
		if !ok {
			return true
		}
		name, ok := r.isPkgSel(se, "time")
		if !ok {
			return true
		}
		switch {
		case timeFuncs[name]:
			r.needVrt = true
			c.Replace(sel("vrt", name))
			r.changed = true
			r.stats["time"]++
		case name == "NewTimer" || name == "AfterFunc" || name == "Ticker" || name == "Timer":
			fatal("%s: time.%s not supported by the vrt shim", r.pos(se), name)
		}
		return true
	}, nil)
}

func (r *rewriter) rewriteSyncImport() {
	for _, is := range r.file.Imports {
		p, _ := strconv.Unquote(is.Path.Value)
		if p == "sync" {
			if is.Name == nil {
				is.Name = ident("sync")
			}
			is.Path.Value = strconv.Quote(vsyncPath)
			is.EndPos = 0
			r.changed = true
			r.stats["sync-import"]++
		}
	}
}

// ---- statements: channels, go, select, range, globals ----

func (r *rewriter) isChan(e ast.Expr) bool {
	t := r.info().TypeOf(e)
	if t == nil {
		return false
	}
	_, ok := t.Underlying().(*types.Chan)
	return ok
}

func (r *rewriter) isMap(e ast.Expr) bool {
	t := r.info().TypeOf(e)
	if t == nil {
		return false
	}
	_, ok := t.Underlying().(*types.Map)
	return ok
}

func (r *rewriter) rewriteStmts() {
	for _, d := range r.file.Decls {
		fd, ok := d.(*ast.FuncDecl)
		if !ok || fd.Body == nil {
			continue
		}
		r.rewriteBlockTree(fd.Body)
	}
	// function literals at package level (var x = func(){...})
	for _, d := range r.file.Decls {
		if gd, ok := d.(*ast.GenDecl); ok && gd.Tok == token.VAR {
			ast.Inspect(gd, func(n ast.Node) bool {
				if fl, ok := n.(*ast.FuncLit); ok {
					r.rewriteBlockTree(fl.Body)
					return false
				}
				return true
			})
		}
	}
}

// rewriteBlockTree rewrites everything below root. Constructs that must see their children
// un-rewritten (select, two-value receive) are transformed on the way down; the rest on the way up.
func (r *rewriter) rewriteBlockTree(root ast.Node) {
	astutil.Apply(root, func(c *astutil.Cursor) bool {
		if !r.cfg.conc {
			return true
		}
		switch n := c.Node().(type) {
		case *ast.AssignStmt:
			if len(n.Lhs) == 2 && len(n.Rhs) == 1 {
				if u, ok := unparen(n.Rhs[0]).(*ast.UnaryExpr); ok && u.Op == token.ARROW {
					n.Rhs[0] = r.vrt("Recv2", u.X)
					r.changed = true
					r.stats["recv2"]++
				}
			}
		case *ast.ValueSpec:
			if len(n.Names) == 2 && len(n.Values) == 1 {
				if u, ok := unparen(n.Values[0]).(*ast.UnaryExpr); ok && u.Op == token.ARROW {
					n.Values[0] = r.vrt("Recv2", u.X)
					r.changed = true
					r.stats["recv2"]++
				}
			}
		}
		return true
	}, func(c *astutil.Cursor) bool {
		switch n := c.Node().(type) {
		case *ast.UnaryExpr:
			if r.cfg.conc && n.Op == token.ARROW {
				c.Replace(r.vrt("Recv", n.X))
				r.changed = true
				r.stats["recv"]++
			}
		case *ast.CallExpr:
			if r.cfg.conc {
				if id, ok := n.Fun.(*ast.Ident); ok && id.Name == "close" && len(n.Args) == 1 {
					if _, isBuiltin := r.info().Uses[id].(*types.Builtin); isBuiltin {
						c.Replace(r.vrt("Close", n.Args[0]))
						r.changed = true
						r.stats["close"]++
					}
				}
			}
		case *ast.SendStmt:
			if r.cfg.conc {
				c.Replace(&ast.ExprStmt{X: r.vrt("Send", n.Chan, n.Value)})
				r.changed = true
				r.stats["send"]++
			}
		case *ast.GoStmt:
			if r.cfg.conc {
				c.Replace(r.goStmt(n))
				r.changed = true
				r.stats["go"]++
			}
		case *ast.RangeStmt:
			if n.X == nil {
				return true
			}
			if r.cfg.conc && r.isChan(n.X) {
				c.Replace(r.rangeChan(n))
				r.changed = true
				r.stats["range-chan"]++
			} else if r.cfg.mapr && r.isMap(n.X) {
				c.Replace(r.rangeMap(n))
				r.changed = true
				r.stats["range-map"]++
			}
		case *ast.SelectStmt:
			if r.cfg.conc {
				c.Replace(r.selectStmt(n))
				r.changed = true
				r.stats["select"]++
			}
		case *ast.BlockStmt:
			if r.cfg.conc {
				n.List = r.globalPoints(n.List)
			}
		case *ast.CaseClause:
			if r.cfg.conc {
				n.Body = r.globalPoints(n.Body)
			}
		case *ast.CommClause:
			if r.cfg.conc {
				n.Body = r.globalPoints(n.Body)
			}
		}
		return true
	})
}

// vrtCall decodes vrt.<fn>(args...) (possibly parenthesised).
func vrtCall(e ast.Expr) (string, []ast.Expr) {
	ce, ok := unparen(e).(*ast.CallExpr)
	if !ok {
		return "", nil
	}
	se, ok := ce.Fun.(*ast.SelectorExpr)
	if !ok {
		return "", nil
	}
	if id, ok := se.X.(*ast.Ident); !ok || id.Name != "vrt" {
		return "", nil
	}
	return se.Sel.Name, ce.Args
}

func unparen(e ast.Expr) ast.Expr {
	for {
		p, ok := e.(*ast.ParenExpr)
		if !ok {
			return e
		}
		e = p.X
	}
}

func (r *rewriter) selectStmt(s *ast.SelectStmt) ast.Stmt {
	var pre []ast.Stmt
	var cases []ast.Expr
	var clauses []ast.Stmt
	hasDefault := "false"
	selv := r.fresh("sel")
	idx := 0
	for _, st := range s.Body.List {
		cc := st.(*ast.CommClause)
		if cc.Comm == nil {
			hasDefault = "true"
			clauses = append(clauses, &ast.CaseClause{List: []ast.Expr{&ast.UnaryExpr{Op: token.SUB, X: &ast.BasicLit{Kind: token.INT, Value: "1"}}}, Body: cc.Body})
			continue
		}
		chv := r.fresh("c")
		body := cc.Body
		// children were rewritten already (post-order): decode the vrt forms
		switch comm := cc.Comm.(type) {
		case *ast.ExprStmt:
			fn, args := vrtCall(comm.X)
			switch fn {
			case "Send":
				pre = append(pre, &ast.AssignStmt{Lhs: []ast.Expr{ident(chv)}, Tok: token.DEFINE, Rhs: []ast.Expr{args[0]}})
				var val ast.Expr = args[1]
				if tv, ok := r.info().Types[args[1]]; !(ok && (tv.Value != nil || tv.IsNil())) {
					vv := r.fresh("sv")
					pre = append(pre, &ast.AssignStmt{Lhs: []ast.Expr{ident(vv)}, Tok: token.DEFINE, Rhs: []ast.Expr{args[1]}})
					val = ident(vv)
				}
				cases = append(cases, r.vrt("CaseSend", ident(chv), val))
			case "Recv":
				pre = append(pre, &ast.AssignStmt{Lhs: []ast.Expr{ident(chv)}, Tok: token.DEFINE, Rhs: []ast.Expr{args[0]}})
				cases = append(cases, r.vrt("CaseRecv", ident(chv)))
			default:
				fatal("%s: unsupported select case", r.pos(s))
			}
		case *ast.AssignStmt:
			if len(comm.Rhs) != 1 {
				fatal("%s: unsupported select case", r.pos(s))
			}
			fn, args := vrtCall(comm.Rhs[0])
			if fn != "Recv" && fn != "Recv2" {
				fatal("%s: unsupported select case", r.pos(s))
			}
			pre = append(pre, &ast.AssignStmt{Lhs: []ast.Expr{ident(chv)}, Tok: token.DEFINE, Rhs: []ast.Expr{args[0]}})
			cases = append(cases, r.vrt("CaseRecv", ident(chv)))
			sv := "SelVal"
			if fn == "Recv2" {
				sv = "SelVal2"
			}
			first := &ast.AssignStmt{Lhs: comm.Lhs, Tok: comm.Tok, Rhs: []ast.Expr{r.vrt(sv, ident(chv), ident(selv))}}
			body = append([]ast.Stmt{first}, cc.Body...)
		default:
			fatal("%s: unsupported select case", r.pos(s))
		}
		clauses = append(clauses, &ast.CaseClause{List: []ast.Expr{&ast.BasicLit{Kind: token.INT, Value: strconv.Itoa(idx)}}, Body: body})
		idx++
	}
	args := append([]ast.Expr{strlit(r.pos(s)), ident(hasDefault)}, cases...)
	pre = append(pre, &ast.AssignStmt{Lhs: []ast.Expr{ident(selv)}, Tok: token.DEFINE, Rhs: []ast.Expr{r.vrt("Select", args...)}})
	pre = append(pre, &ast.SwitchStmt{Tag: &ast.SelectorExpr{X: ident(selv), Sel: ident("I")}, Body: &ast.BlockStmt{List: clauses}})
	return &ast.BlockStmt{List: pre}
}

// globalPoints inserts vrt.Point("g:<name>") before every statement whose own expressions mention a
// package-level variable of the repository (exposes check-then-act on plain shared memory).
func (r *rewriter) globalPoints(list []ast.Stmt) []ast.Stmt {
	var out []ast.Stmt
	for _, st := range list {
		if name := r.mentionsGlobal(st); name != "" {
			out = append(out, &ast.ExprStmt{X: r.vrt("Point", strlit("g:"+name))})
			r.changed = true
			r.stats["global-point"]++
		}
		out = append(out, st)
	}
	return out
}

func (r *rewriter) mentionsGlobal(st ast.Stmt) string {
	var exprs []ast.Node
	switch s := st.(type) {
	case *ast.AssignStmt:
		for _, e := range s.Lhs {
			exprs = append(exprs, e)
		}
		for _, e := range s.Rhs {
			exprs = append(exprs, e)
		}
	case *ast.ExprStmt:
		if ce, ok := s.X.(*ast.CallExpr); ok {
			if se, ok := ce.Fun.(*ast.SelectorExpr); ok {
				if id, ok := se.X.(*ast.Ident); ok && id.Name == "vrt" {
					return ""
				}
			}
		}
		exprs = append(exprs, s.X)
	case *ast.IncDecStmt:
		exprs = append(exprs, s.X)
	case *ast.ReturnStmt:
		for _, e := range s.Results {
			exprs = append(exprs, e)
		}
	case *ast.IfStmt:
		if s.Init != nil {
			exprs = append(exprs, s.Init)
		}
		exprs = append(exprs, s.Cond)
	case *ast.SwitchStmt:
		if s.Init != nil {
			exprs = append(exprs, s.Init)
		}
		if s.Tag != nil {
			exprs = append(exprs, s.Tag)
		}
	case *ast.ForStmt:
		if s.Cond != nil {
			exprs = append(exprs, s.Cond)
		}
	case *ast.RangeStmt:
		exprs = append(exprs, s.X)
	case *ast.DeclStmt:
		exprs = append(exprs, s.Decl)
	case *ast.DeferStmt:
		for _, e := range s.Call.Args {
			exprs = append(exprs, e)
		}
	}
	found := ""
	for _, e := range exprs {
		ast.Inspect(e, func(n ast.Node) bool {
			if found != "" {
				return false
			}
			if _, ok := n.(*ast.FuncLit); ok {
				return false
			}
			id, ok := n.(*ast.Ident)
			if !ok {
				return true
			}
			v, ok := r.info().Uses[id].(*types.Var)
			if !ok || v.Pkg() == nil || v.IsField() || v.Parent() != v.Pkg().Scope() {
				return true
			}
			if !strings.HasPrefix(v.Pkg().Path(), mod) {
				return true
			}
			if strings.HasPrefix(v.Name(), "Err") || strings.HasPrefix(v.Name(), "err") {
				return true
			}
			if types.Identical(v.Type(), types.Universe.Lookup("error").Type()) {
				return true
			}
			found = v.Pkg().Name() + "." + v.Name()
			return false
		})
	}
	return found
}

// ---- memory accesses (happens-before race detection, see rt/vrt/hb.go) ----

// rewriteMem routes reads and writes of struct fields and package-level variables of the repository
// through vrt.R / vrt.W:   x.f  ->  (*vrt.R(&x.f, "pkg.T.f@file.go:12")),   x.f = v  ->  (*vrt.W(&x.f, ...)) = v.
// Only addressable operands are rewritten (everything reached through a pointer is); fields of
// synchronisation types, operands of & and error variables are left alone. Decisions are taken in a first
// pass over the (already rewritten) tree, using the type information of the original nodes, and applied
// bottom-up in a second pass.
func (r *rewriter) rewriteMem() {
	type dec struct {
		write bool
		site  string
	}
	decs := map[ast.Expr]dec{}
	isSyncType := func(t types.Type) bool {
		if p, ok := t.(*types.Pointer); ok {
			t = p.Elem()
		}
		n, ok := t.(*types.Named)
		if !ok || n.Obj().Pkg() == nil {
			return false
		}
		switch n.Obj().Pkg().Path() {
		case "sync", "sync/atomic", vsyncPath:
			return true
		}
		return false
	}
	repoVar := func(v *types.Var) bool {
		return v != nil && v.Pkg() != nil && strings.HasPrefix(v.Pkg().Path(), mod) && !strings.Contains(v.Pkg().Path(), "/verif/")
	}
	var stack []ast.Node
	decide := func(n ast.Expr, name string) {
		if len(stack) == 0 {
			return
		}
		p := stack[len(stack)-1]
		var g ast.Node
		if len(stack) > 1 {
			g = stack[len(stack)-2]
		}
		write := false
		inLhs := func(as *ast.AssignStmt, e ast.Expr) bool {
			if as.Tok == token.DEFINE {
				return false
			}
			for _, l := range as.Lhs {
				if l == e {
					return true
				}
			}
			return false
		}
		switch pp := p.(type) {
		case *ast.UnaryExpr:
			if pp.Op == token.AND {
				return
			}
		case *ast.AssignStmt:
			if pp.Tok == token.DEFINE {
				for _, l := range pp.Lhs {
					if l == n {
						return
					}
				}
			}
			write = inLhs(pp, n)
		case *ast.IncDecStmt:
			write = true
		case *ast.RangeStmt:
			if pp.Key == n || pp.Value == n {
				return
			}
		case *ast.ValueSpec:
			for _, nm := range pp.Names {
				if ast.Expr(nm) == n {
					return
				}
			}
		case *ast.SelectorExpr:
			if pp.Sel == n {
				return
			}
		case *ast.KeyValueExpr:
			if pp.Key == n {
				if _, isComp := g.(*ast.CompositeLit); isComp {
					if _, isID := n.(*ast.Ident); isID {
						return // struct literal key
					}
				}
			}
		case *ast.IndexExpr:
			if pp.X == n && r.isMap(n) {
				switch gg := g.(type) {
				case *ast.AssignStmt:
					write = inLhs(gg, pp)
				case *ast.IncDecStmt:
					write = true
				}
			}
		case *ast.CallExpr:
			if id, ok := pp.Fun.(*ast.Ident); ok && id.Name == "delete" && len(pp.Args) > 0 && pp.Args[0] == n {
				if _, isBuiltin := r.info().Uses[id].(*types.Builtin); isBuiltin {
					write = true
				}
			}
		}
		decs[n] = dec{write: write, site: name + "@" + r.pos(n)}
	}
	visit := func(n ast.Node) bool {
		if n == nil {
			stack = stack[:len(stack)-1]
			return true
		}
		switch x := n.(type) {
		case *ast.SelectorExpr:
			if sel := r.info().Selections[x]; sel != nil {
				if sel.Kind() == types.FieldVal {
					fv, _ := sel.Obj().(*types.Var)
					tv, haveTV := r.info().Types[x.X]
					addressable := sel.Indirect() || (haveTV && tv.Addressable())
					if repoVar(fv) && !isSyncType(fv.Type()) && addressable && fv.Name() != "_" {
						owner := "?"
						rt := sel.Recv()
						if pt, ok := rt.(*types.Pointer); ok {
							rt = pt.Elem()
						}
						if nt, ok := rt.(*types.Named); ok {
							owner = nt.Obj().Name()
						}
						decide(x, fv.Pkg().Name()+"."+owner+"."+fv.Name())
					}
				}
			} else if id, ok := x.X.(*ast.Ident); ok {
				if _, isPkg := r.info().Uses[id].(*types.PkgName); isPkg {
					if v, ok := r.info().Uses[x.Sel].(*types.Var); ok && repoVar(v) && !v.IsField() && v.Parent() == v.Pkg().Scope() && r.plainGlobal(v) && !isSyncType(v.Type()) {
						decide(x, v.Pkg().Name()+"."+v.Name())
					}
				}
			}
		case *ast.Ident:
			if v, ok := r.info().Uses[x].(*types.Var); ok && repoVar(v) && !v.IsField() && v.Parent() == v.Pkg().Scope() && r.plainGlobal(v) && !isSyncType(v.Type()) {
				decide(x, v.Pkg().Name()+"."+v.Name())
			}
		}
		stack = append(stack, n)
		return true
	}
	for _, d := range r.file.Decls {
		if fd, ok := d.(*ast.FuncDecl); ok && fd.Body != nil {
			stack = stack[:0]
			stack = append(stack, fd)
			ast.Inspect(fd.Body, visit)
		}
	}
	if len(decs) == 0 {
		return
	}
	astutil.Apply(r.file, nil, func(c *astutil.Cursor) bool {
		e, ok := c.Node().(ast.Expr)
		if !ok {
			return true
		}
		d, ok := decs[e]
		if !ok {
			return true
		}
		delete(decs, e)
		fn := "R"
		if d.write {
			fn = "W"
		}
		c.Replace(&ast.ParenExpr{X: &ast.StarExpr{X: r.vrt(fn, &ast.UnaryExpr{Op: token.AND, X: e}, strlit(d.site))}})
		r.changed = true
		r.stats["mem-"+strings.ToLower(fn)]++
		return true
	})
}

// plainGlobal: package-level variables that take part in race detection (error values and the like are
// initialised once and only read).
func (r *rewriter) plainGlobal(v *types.Var) bool {
	if strings.HasPrefix(v.Name(), "Err") || strings.HasPrefix(v.Name(), "err") {
		return false
	}
	if types.Identical(v.Type(), types.Universe.Lookup("error").Type()) {
		return false
	}
	return true
}

func (r *rewriter) goStmt(g *ast.GoStmt) ast.Stmt {
	ce := g.Call
	name := exprString(ce.Fun)
	var stmts []ast.Stmt
	fun := ce.Fun
	if _, isLit := fun.(*ast.FuncLit); !isLit {
		fv := r.fresh("f")
		stmts = append(stmts, &ast.AssignStmt{Lhs: []ast.Expr{ident(fv)}, Tok: token.DEFINE, Rhs: []ast.Expr{fun}})
		fun = ident(fv)
	} else {
		name = "func@" + r.pos(g)
	}
	var args []ast.Expr
	for _, a := range ce.Args {
		tv, ok := r.info().Types[a]
		if (ok && (tv.Value != nil || tv.IsNil())) || isFuncLit(a) {
			args = append(args, a)
			continue
		}
		av := r.fresh("a")
		stmts = append(stmts, &ast.AssignStmt{Lhs: []ast.Expr{ident(av)}, Tok: token.DEFINE, Rhs: []ast.Expr{a}})
		args = append(args, ident(av))
	}
	inner := &ast.CallExpr{Fun: fun, Args: args, Ellipsis: ce.Ellipsis}
	if ce.Ellipsis.IsValid() {
		inner.Ellipsis = 1
	}
	body := &ast.FuncLit{Type: &ast.FuncType{Params: &ast.FieldList{}}, Body: &ast.BlockStmt{List: []ast.Stmt{&ast.ExprStmt{X: inner}}}}
	stmts = append(stmts, &ast.ExprStmt{X: r.vrt("Go", strlit(r.rel+":"+name), body)})
	return &ast.BlockStmt{List: stmts}
}

func isFuncLit(e ast.Expr) bool { _, ok := e.(*ast.FuncLit); return ok }

func exprString(e ast.Expr) string {
	switch x := e.(type) {
	case *ast.Ident:
		return x.Name
	case *ast.SelectorExpr:
		return exprString(x.X) + "." + x.Sel.Name
	case *ast.CallExpr:
		return exprString(x.Fun) + "()"
	}
	return "expr"
}

func (r *rewriter) rangeChan(n *ast.RangeStmt) ast.Stmt {
	if n.Value != nil {
		fatal("%s: range over channel with two variables", r.pos(n))
	}
	ok := r.fresh("ok")
	var recv ast.Stmt
	switch {
	case n.Key == nil:
		recv = &ast.AssignStmt{Lhs: []ast.Expr{ident("_"), ident(ok)}, Tok: token.DEFINE, Rhs: []ast.Expr{r.vrt("Recv2", n.X)}}
	case n.Tok == token.DEFINE:
		recv = &ast.AssignStmt{Lhs: []ast.Expr{n.Key, ident(ok)}, Tok: token.DEFINE, Rhs: []ast.Expr{r.vrt("Recv2", n.X)}}
	default:
		fatal("%s: range over channel with assignment form", r.pos(n))
	}
	brk := &ast.IfStmt{Cond: &ast.UnaryExpr{Op: token.NOT, X: ident(ok)}, Body: &ast.BlockStmt{List: []ast.Stmt{&ast.BranchStmt{Tok: token.BREAK}}}}
	body := &ast.BlockStmt{List: append([]ast.Stmt{recv, brk}, n.Body.List...)}
	return &ast.ForStmt{Body: body}
}

func isBlank(e ast.Expr) bool {
	id, ok := e.(*ast.Ident)
	return e == nil || (ok && id.Name == "_")
}

func (r *rewriter) rangeMap(n *ast.RangeStmt) ast.Stmt {
	// for K, V := range M { B }  =>
	// for _, _it := range vrt.MapItems(M, site) { V, _ok := _it.Get(); if !_ok { continue }; K := _it.K; B }
	// (one statement, M evaluated once, entries deleted during the loop are not produced: Go semantics)
	it := r.fresh("it")
	okv := r.fresh("ok")
	var head []ast.Stmt
	get := call(&ast.SelectorExpr{X: ident(it), Sel: ident("Get")})
	tok := n.Tok
	if tok != token.ASSIGN {
		tok = token.DEFINE
	}
	if isBlank(n.Value) {
		head = append(head, &ast.AssignStmt{Lhs: []ast.Expr{ident("_"), ident(okv)}, Tok: token.DEFINE, Rhs: []ast.Expr{get}})
	} else if tok == token.ASSIGN {
		head = append(head, &ast.DeclStmt{Decl: &ast.GenDecl{Tok: token.VAR, Specs: []ast.Spec{&ast.ValueSpec{Names: []*ast.Ident{ident(okv)}, Type: ident("bool")}}}})
		head = append(head, &ast.AssignStmt{Lhs: []ast.Expr{n.Value, ident(okv)}, Tok: token.ASSIGN, Rhs: []ast.Expr{get}})
	} else {
		head = append(head, &ast.AssignStmt{Lhs: []ast.Expr{n.Value, ident(okv)}, Tok: token.DEFINE, Rhs: []ast.Expr{get}})
	}
	head = append(head, &ast.IfStmt{Cond: &ast.UnaryExpr{Op: token.NOT, X: ident(okv)}, Body: &ast.BlockStmt{List: []ast.Stmt{&ast.BranchStmt{Tok: token.CONTINUE}}}})
	if !isBlank(n.Key) {
		head = append(head, &ast.AssignStmt{Lhs: []ast.Expr{n.Key}, Tok: tok, Rhs: []ast.Expr{&ast.SelectorExpr{X: ident(it), Sel: ident("K")}}})
	}
	return &ast.RangeStmt{Key: ident("_"), Value: ident(it), Tok: token.DEFINE, X: r.vrt("MapItems", n.X, strlit(r.pos(n))),
		Body: &ast.BlockStmt{List: append(head, n.Body.List...)}}
}

// genReset emits a file that registers a function restoring every package-level variable that has
// no initializer (zero value) or a literal initializer. Variables initialised by calls (sentinel
// errors, regexps, registries) are treated as immutable and left alone.
func genReset(p *packages.Package) string {
	var sb strings.Builder
	n := 0
	for _, f := range p.Syntax {
		for _, d := range f.Decls {
			gd, ok := d.(*ast.GenDecl)
			if !ok || gd.Tok != token.VAR {
				continue
			}
			for _, sp := range gd.Specs {
				vs := sp.(*ast.ValueSpec)
				for i, name := range vs.Names {
					if name.Name == "_" {
						continue
					}
					obj, _ := p.TypesInfo.Defs[name].(*types.Var)
					if obj == nil {
						continue
					}
					if len(vs.Values) == 0 {
						ts := types.TypeString(obj.Type(), func(q *types.Package) string {
							if q == p.Types {
								return ""
							}
							return "?"
						})
						if strings.Contains(ts, "?") {
							// type from another package: use the zero value through a pointer trick
							fmt.Fprintf(&sb, "\t{ p := &%s; var z = *new(struct{ v any }); _ = z; vrtZero(p) }\n", name.Name)
						} else {
							fmt.Fprintf(&sb, "\t{ var z %s; %s = z }\n", ts, name.Name)
						}
						n++
						continue
					}
					if i >= len(vs.Values) {
						continue
					}
					switch v := vs.Values[i].(type) {
					case *ast.BasicLit:
						fmt.Fprintf(&sb, "\t%s = %s\n", name.Name, v.Value)
						n++
					case *ast.Ident:
						if v.Name == "true" || v.Name == "false" || v.Name == "nil" {
							fmt.Fprintf(&sb, "\t%s = %s\n", name.Name, v.Name)
							n++
						}
					}
				}
			}
		}
	}
	if n == 0 {
		return ""
	}
	return "//go:build verif\n\npackage " + p.Name + "\n\nimport (\n\t\"reflect\"\n\tvrt \"" + vrtPath + "\"\n)\n\n" +
		"func vrtZero(p any) { v := reflect.ValueOf(p).Elem(); v.Set(reflect.Zero(v.Type())) }\n\nvar _ = vrtZero\n\n" +
		"func init() {\n\tvrt.RegisterReset(\"" + p.PkgPath + "\", func() {\n" + sb.String() + "\t})\n}\n"
}
