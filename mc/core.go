// Package mc holds the explorer plumbing shared by all checks: case enumeration with process
// sharding, evidence, violations with semantic signatures, known findings, replay.
package mc

import (
	"encoding/json"
	"runtime"
	"fmt"
	"hash/fnv"
	"os"
	"os/exec"
	"path/filepath"
	"sort"
	"strconv"
	"strings"
	"sync"
	"sync/atomic"
	"time"
)

// Violation is one failing case.
type Violation struct {
	Sig   string          `json:"signature"` // semantic signature (see DESIGN Appendix B)
	What  string          `json:"what"`      // human-readable description
	Spec  json.RawMessage `json:"spec"`      // the case (replayable)
	Count int             `json:"count"`     // how many cases produced this signature
}

// Ctx is handed to a check's Run function.
type Ctx struct {
	lastBeat int64 // unix nanos of the last sign of progress (watchdog)
	parent   *Ctx   // scratch context of a determinism re-run: progress counts for the parent's watchdog
	Doing    string // what the case is executing right now (printed by the watchdog; set by long-running cases)
	ID      string
	Tier    string
	Seed    int64
	Shard   int
	NShards int
	Replay  bool

	Evals       int64
	Distinct    map[uint64]struct{}
	Outcomes    map[string]int64
	States      map[uint64]struct{}
	Transitions int64
	Traces      int64
	Counters    map[string]int64
	Samples     []any
	sampleN     int64
	Viol        map[string]*Violation
	Deadline    time.Time
	Capped      string // non-empty: a cap was hit (named)
	curSpec     json.RawMessage
	Notes       []string
	// FinishNow writes the shard result and ends the worker process (used after a hang was recorded:
	// the hung goroutine shares process globals, nothing more can be explored safely in this process).
	FinishNow func()
}

func newCtx(id, tier string, seed int64, shard, n int) *Ctx {
	return &Ctx{ID: id, Tier: tier, Seed: seed, Shard: shard, NShards: n,
		Distinct: map[uint64]struct{}{}, Outcomes: map[string]int64{}, States: map[uint64]struct{}{},
		Counters: map[string]int64{}, Viol: map[string]*Violation{}}
}

func Hash(parts ...any) uint64 {
	h := fnv.New64a()
	for _, p := range parts {
		fmt.Fprintf(h, "%v\x00", p)
	}
	return h.Sum64()
}

// Eval counts one evaluated case. key identifies it for distinctness; nontrivial says whether it
// counts as non-trivial by the check's rule.
func (c *Ctx) Eval(key any, nontrivial bool) {
	c.Evals++
	c.Heartbeat()
	if nontrivial {
		c.Distinct[Hash(key)] = struct{}{}
	}
}

// EvalBulk counts n evaluated, pairwise distinct, non-trivial cases of a sweep without hashing each.
func (c *Ctx) EvalBulk(n int64) {
	c.Evals += n
	c.Counters["bulk_distinct"] += n
}

// Outcome records an observed outcome class (vacuity guard: >= 2 classes expected).
func (c *Ctx) Outcome(class string) { c.Outcomes[class]++ }

func (c *Ctx) State(key any) bool {
	h := Hash(key)
	if _, ok := c.States[h]; ok {
		return false
	}
	c.States[h] = struct{}{}
	return true
}

func (c *Ctx) Count(name string, d int64) { c.Counters[name] += d }

// Sample keeps a few explored cases written out in full (first ones and a thinning tail).
func (c *Ctx) Sample(v any) {
	c.sampleN++
	if len(c.Samples) < 2 {
		c.Samples = append(c.Samples, v)
		return
	}
	if c.sampleN&(c.sampleN-1) == 0 { // powers of two: thinning
		if len(c.Samples) >= 4 {
			c.Samples = append(c.Samples[:2], c.Samples[3:]...)
		}
		c.Samples = append(c.Samples, v)
	}
}

// Violate reports a violation of the property for the current case.
func (c *Ctx) Violate(sig, what string) {
	if v, ok := c.Viol[sig]; ok {
		v.Count++
		return
	}
	c.Viol[sig] = &Violation{Sig: sig, What: what, Spec: c.curSpec, Count: 1}
}

// ViolateWith is Violate with an explicit replay spec (e.g. the exact schedule of one execution).
func (c *Ctx) ViolateWith(sig, what string, spec any) {
	if v, ok := c.Viol[sig]; ok {
		v.Count++
		return
	}
	raw, _ := json.Marshal(spec)
	c.Viol[sig] = &Violation{Sig: sig, What: what, Spec: raw, Count: 1}
}

// Expired reports whether the wall-clock guard has passed (the run then ends with exhaustive:false).
func (c *Ctx) Expired() bool {
	if !c.Deadline.IsZero() && time.Now().After(c.Deadline) {
		if c.Capped == "" {
			c.Capped = "wall-clock guard"
		}
		return true
	}
	return false
}

func (c *Ctx) Thorough() bool { return c.Tier == "thorough" }

// ---------------------------------------------------------------------------------------------

// Check is a registered property check (type-erased).
type Check struct {
	ID        string
	Level     string // exploration | fault_enumeration | model_checking
	Rule      string // how cases are enumerated and what makes one non-trivial
	Assume    []string
	Shards    int           // 0 = 16; 1 = in-process
	QuickMax  time.Duration // wall-clock guard per tier
	ThorMax   time.Duration
	run       func(c *Ctx)
	replay    func(c *Ctx, raw json.RawMessage) error
	MinOutcom int // minimal number of outcome classes (vacuity), default 2
	// Explain adds free-form keys to coverage.
	Extra func(c *Ctx, cov map[string]any)
	// Race: optional auxiliary free-running -race pass (see race.go).
	Race *RaceSpec
}

var registry = map[string]*Check{}

// Def registers a check whose cases are values of S. enumerate must yield the same sequence in
// every process (sharding is by index); run judges one case.
func Def[S any](ck Check, enumerate func(c *Ctx, yield func(S)), run func(c *Ctx, s S)) {
	ck.run = func(c *Ctx) {
		i := 0
		stop := false
		enumerate(c, func(s S) {
			idx := i
			i++
			if stop || idx%c.NShards != c.Shard {
				return
			}
			if idx%64 == 0 && c.Expired() {
				stop = true
				return
			}
			runOne(c, s, run)
		})
	}
	ck.replay = func(c *Ctx, raw json.RawMessage) error {
		var s S
		if err := json.Unmarshal(raw, &s); err != nil {
			return err
		}
		runOne(c, s, run)
		return nil
	}
	c := ck
	registry[ck.ID] = &c
}

// watchdogLimit: a case (or, for a case that is a whole subtree of schedules, one execution of it) that
// makes no progress for this long is a hang; generous because the machine may be shared with other work.
const watchdogLimit = 240 * time.Second

// Heartbeat tells the watchdog that the current case is making progress (one execution finished).
func (c *Ctx) Heartbeat() {
	atomic.StoreInt64(&c.lastBeat, time.Now().UnixNano())
	if c.parent != nil {
		c.parent.Heartbeat()
	}
}

func runOne[S any](c *Ctx, s S, run func(c *Ctx, s S)) {
	raw, _ := json.Marshal(s)
	c.curSpec = raw
	// watchdog: a single case that does not return (a hang in the code under test or in the harness)
	// ends the worker with an infrastructure error instead of blocking the check forever
	done := make(chan struct{})
	defer close(done)
	c.Heartbeat()
	go func() {
		for {
			select {
			case <-done:
				return
			case <-time.After(5 * time.Second):
			}
			if time.Since(time.Unix(0, atomic.LoadInt64(&c.lastBeat))) < watchdogLimit {
				continue
			}
			buf := make([]byte, 1<<20)
			n := runtime.Stack(buf, true)
			os.WriteFile(filepath.Join(VerifDir, ".work", fmt.Sprintf("watchdog-%d.txt", os.Getpid())), buf[:n], 0o644)
			fmt.Fprintf(os.Stderr, "WATCHDOG: case made no progress for %v (stacks in .work/watchdog-%d.txt): %s; doing: %s\n", watchdogLimit, os.Getpid(), raw, c.Doing)
			os.Exit(3)
		}
	}()
	before := len(c.Viol)
	sigsBefore := map[string]bool{}
	for k := range c.Viol {
		sigsBefore[k] = true
	}
	run(c, s)
	if len(c.Viol) > before && !c.Replay {
		// a new signature: re-run the same case 4 more times on a scratch context; all runs must agree
		var newSigs []string
		for k := range c.Viol {
			if !sigsBefore[k] {
				newSigs = append(newSigs, k)
			}
		}
		sort.Strings(newSigs)
		// re-run what produced each new signature: the violation's own replayable spec when it has one (a single
		// schedule of a subtree case), else the whole case
		type rerun struct {
			spec S
			raw  string
			sigs []string
		}
		bySpec := map[string]*rerun{}
		var order []string
		for _, k := range newSigs {
			key := string(c.Viol[k].Spec)
			var sp S
			if key == "" || key == "null" || json.Unmarshal([]byte(key), &sp) != nil {
				key, sp = string(raw), s
			}
			rr := bySpec[key]
			if rr == nil {
				rr = &rerun{spec: sp, raw: key}
				bySpec[key] = rr
				order = append(order, key)
			}
			rr.sigs = append(rr.sigs, k)
		}
		for _, key := range order {
			rr := bySpec[key]
			for r := 0; r < 4; r++ {
				sc := newCtx(c.ID, c.Tier, c.Seed, 0, 1)
				sc.Replay = true
				sc.parent = c
				sc.curSpec = []byte(rr.raw)
				run(sc, rr.spec)
				for _, k := range rr.sigs {
					if _, ok := sc.Viol[k]; !ok {
						c.Notes = append(c.Notes, fmt.Sprintf("NONDETERMINISTIC: signature %q not reproduced on re-run %d of %s (first run said: %s)", k, r+1, rr.raw, c.Viol[k].What))
					}
				}
			}
		}
	}
}

// Lookup returns a registered check.
func Lookup(id string) *Check { return registry[id] }

func IDs() []string {
	var l []string
	for k := range registry {
		l = append(l, k)
	}
	sort.Strings(l)
	return l
}

// ---------------------------------------------------------------------------------------------
// worker protocol

type shardResult struct {
	Evals       int64
	Distinct    []uint64
	Outcomes    map[string]int64
	States      []uint64
	Transitions int64
	Traces      int64
	Counters    map[string]int64
	Samples     []any
	Viol        []*Violation
	Capped      string
	Notes       []string
}

func (c *Ctx) result() *shardResult {
	r := &shardResult{Evals: c.Evals, Outcomes: c.Outcomes, Transitions: c.Transitions, Traces: c.Traces,
		Counters: c.Counters, Samples: c.Samples, Capped: c.Capped, Notes: c.Notes}
	for k := range c.Distinct {
		r.Distinct = append(r.Distinct, k)
	}
	for k := range c.States {
		r.States = append(r.States, k)
	}
	for _, v := range c.Viol {
		r.Viol = append(r.Viol, v)
	}
	return r
}

const VerifDir = "/verif"

// OutDir is where a run writes its evidence and replay files: /verif, or $VERIF_OUT when the checker is
// pointed at a scratch copy of the repository (seeded-change runs must not overwrite committed evidence).
func OutDir() string {
	if d := os.Getenv("VERIF_OUT"); d != "" {
		return d
	}
	return VerifDir
}

type Finding struct {
	Property  string `json:"property"`
	Signature string `json:"signature"`
	Status    string `json:"status"` // known | fixed
	Commit    string `json:"commit,omitempty"`
	What      string `json:"what"`
	Example   string `json:"example_replay,omitempty"`
}

func loadFindings() []Finding {
	b, err := os.ReadFile(filepath.Join(VerifDir, "known_findings.json"))
	if err != nil {
		return nil
	}
	var f struct {
		Findings []Finding `json:"findings"`
	}
	if err := json.Unmarshal(b, &f); err != nil {
		fmt.Fprintf(os.Stderr, "known_findings.json: %v\n", err)
		os.Exit(2)
	}
	return f.Findings
}

// Main is the entry point of the mcheck binary.
func Main(args []string) int {
	if len(args) < 1 {
		fmt.Fprintf(os.Stderr, "usage: mcheck <ID>|list [--tier quick|thorough] [--replay file] [--worker i/n --out file]\nchecks: %s\n", strings.Join(IDs(), " "))
		return 2
	}
	id := args[0]
	if id == "list" {
		fmt.Println(strings.Join(IDs(), "\n"))
		return 0
	}
	if id == "has-race" { // exit 0 iff the named check has an auxiliary race pass (asked by bin/check)
		if len(args) > 1 {
			if ck := Lookup(args[1]); ck != nil && ck.Race != nil {
				return 0
			}
		}
		return 1
	}
	tier := os.Getenv("VERIF_TIER")
	if tier == "" {
		tier = "quick"
	}
	var replay, worker, out string
	for i := 1; i < len(args); i++ {
		switch args[i] {
		case "--tier":
			i++
			tier = args[i]
		case "--replay":
			i++
			replay = args[i]
		case "--worker":
			i++
			worker = args[i]
		case "--out":
			i++
			out = args[i]
		}
	}
	var seed int64
	if s := os.Getenv("VERIF_SEED"); s != "" {
		seed, _ = strconv.ParseInt(s, 10, 64)
	}
	ck := Lookup(id)
	if ck == nil {
		fmt.Fprintf(os.Stderr, "unknown check %q; have: %s\n", id, strings.Join(IDs(), " "))
		return 2
	}
	if replay != "" {
		return doReplay(ck, tier, seed, replay)
	}
	if worker != "" {
		var i, n int
		fmt.Sscanf(worker, "%d/%d", &i, &n)
		c := newCtx(id, tier, seed, i, n)
		c.Deadline = time.Now().Add(ck.maxDur(tier))
		write := func() int {
			b, _ := json.Marshal(c.result())
			if err := os.WriteFile(out, b, 0o644); err != nil {
				fmt.Fprintln(os.Stderr, err)
				return 2
			}
			return 0
		}
		c.FinishNow = func() {
			if c.Capped == "" {
				c.Capped = "worker ended early after a hang was recorded"
			}
			os.Exit(write())
		}
		ck.run(c)
		return write()
	}
	return drive(ck, tier, seed)
}

func (ck *Check) maxDur(tier string) time.Duration {
	d := ck.QuickMax
	if tier == "thorough" {
		d = ck.ThorMax
	}
	if d == 0 {
		if tier == "thorough" {
			return 25 * time.Minute
		}
		return 4 * time.Minute
	}
	return d
}

func doReplay(ck *Check, tier string, seed int64, file string) int {
	b, err := os.ReadFile(file)
	if err != nil {
		fmt.Fprintln(os.Stderr, err)
		return 2
	}
	var v Violation
	if err := json.Unmarshal(b, &v); err != nil {
		fmt.Fprintln(os.Stderr, err)
		return 2
	}
	c := newCtx(ck.ID, tier, seed, 0, 1)
	c.Replay = true
	if err := ck.replay(c, v.Spec); err != nil {
		fmt.Fprintln(os.Stderr, err)
		return 2
	}
	fmt.Printf("replay of %s: case %s\n", file, v.Spec)
	if len(c.Viol) == 0 {
		fmt.Println("no violation on this tree")
		return 0
	}
	for _, x := range c.Viol {
		fmt.Printf("violated: signature=%s\n  %s\n", x.Sig, x.What)
	}
	return 1
}

func drive(ck *Check, tier string, seed int64) int {
	start := time.Now()
	n := ck.Shards
	if n == 0 {
		n = 16
	}
	self, _ := os.Executable()
	tmp, err := os.MkdirTemp(filepath.Join(VerifDir, ".work"), "run-"+ck.ID+"-")
	if err != nil {
		fmt.Fprintln(os.Stderr, err)
		return 2
	}
	defer os.RemoveAll(tmp)
	os.RemoveAll(filepath.Join(OutDir(), "replays", ck.ID)) // replay files belong to the run that wrote them
	results := make([]*shardResult, n)
	errs := make([]string, n)
	var wg sync.WaitGroup
	order := make([]int, n)
	for i := range order {
		order[i] = (i + int(seed%int64(n)) + n) % n // the seed only permutes shard visiting order
	}
	sem := make(chan struct{}, 16)
	for _, i := range order {
		wg.Add(1)
		go func(i int) {
			defer wg.Done()
			sem <- struct{}{}
			defer func() { <-sem }()
			outf := filepath.Join(tmp, fmt.Sprintf("shard-%d.json", i))
			cmd := exec.Command(self, ck.ID, "--tier", tier, "--worker", fmt.Sprintf("%d/%d", i, n), "--out", outf)
			cmd.Env = append(os.Environ(), "GOMAXPROCS=1", "GOGC=200")
			var stderr strings.Builder
			cmd.Stderr = &stderr
			cmd.Stdout = &stderr
			err := cmd.Run()
			if err != nil {
				st := stderr.String()
				if len(st) > 30000 {
					st = st[len(st)-30000:]
				}
				errs[i] = fmt.Sprintf("shard %d: %v\n%s", i, err, st)
				return
			}
			b, err := os.ReadFile(outf)
			if err != nil {
				errs[i] = err.Error()
				return
			}
			r := &shardResult{}
			if err := json.Unmarshal(b, r); err != nil {
				errs[i] = err.Error()
				return
			}
			results[i] = r
		}(i)
	}
	wg.Wait()
	for _, e := range errs {
		if e != "" {
			fmt.Fprintf(os.Stderr, "INFRA-ERROR %s: %s\n", ck.ID, e)
			return 2
		}
	}
	// merge
	tot := &shardResult{Outcomes: map[string]int64{}, Counters: map[string]int64{}}
	distinct := map[uint64]struct{}{}
	states := map[uint64]struct{}{}
	viol := map[string]*Violation{}
	for _, r := range results {
		tot.Evals += r.Evals
		tot.Transitions += r.Transitions
		tot.Traces += r.Traces
		for _, d := range r.Distinct {
			distinct[d] = struct{}{}
		}
		for _, d := range r.States {
			states[d] = struct{}{}
		}
		for k, v := range r.Outcomes {
			tot.Outcomes[k] += v
		}
		for k, v := range r.Counters {
			tot.Counters[k] += v
		}
		if len(tot.Samples) < 6 {
			for _, s := range r.Samples {
				if len(tot.Samples) < 6 {
					tot.Samples = append(tot.Samples, s)
				}
			}
		}
		for _, v := range r.Viol {
			if o, ok := viol[v.Sig]; ok {
				o.Count += v.Count
			} else {
				viol[v.Sig] = v
			}
		}
		if r.Capped != "" {
			tot.Capped = r.Capped
		}
		tot.Notes = append(tot.Notes, r.Notes...)
	}
	for _, nt := range tot.Notes {
		if strings.HasPrefix(nt, "NONDETERMINISTIC") {
			fmt.Fprintf(os.Stderr, "INFRA-ERROR %s: %s\n", ck.ID, nt)
			return 2
		}
	}
	var raceInfo map[string]any
	if ck.Race != nil {
		raceInfo = racePass(ck, tier, seed, viol)
	}
	// classify
	findings := loadFindings()
	var sigs []string
	for k := range viol {
		sigs = append(sigs, k)
	}
	sort.Strings(sigs)
	exit := 0
	nviol := 0
	var knownLines []string
	for _, sg := range sigs {
		v := viol[sg]
		known := false
		for _, f := range findings {
			if f.Property == ck.ID && f.Status == "known" && f.Signature == sg {
				known = true
				knownLines = append(knownLines, fmt.Sprintf("KNOWN-FINDING: property=%s %s [%s] (%d cases)", ck.ID, f.What, sg, v.Count))
			}
		}
		dir := filepath.Join(OutDir(), "replays", ck.ID)
		os.MkdirAll(dir, 0o755)
		path := filepath.Join(dir, sanitize(sg)+".json")
		b, _ := json.MarshalIndent(v, "", " ")
		os.WriteFile(path, b, 0o644)
		if known {
			continue
		}
		nviol++
		fmt.Printf("VIOLATION property=%s replay=%s\n  signature: %s\n  %s\n  (%d cases)\n", ck.ID, path, sg, v.What, v.Count)
		exit = 1
	}
	for _, l := range knownLines {
		fmt.Println(l)
	}
	minOut := ck.MinOutcom
	if minOut == 0 {
		minOut = 2
	}
	if len(tot.Outcomes) < minOut && exit == 0 {
		fmt.Fprintf(os.Stderr, "INFRA-ERROR %s: vacuity guard: only %d outcome class(es) observed: %v\n", ck.ID, len(tot.Outcomes), tot.Outcomes)
		return 2
	}
	// evidence
	ndist := int64(len(distinct)) + tot.Counters["bulk_distinct"]
	delete(tot.Counters, "bulk_distinct")
	cov := map[string]any{
		"evaluations":         tot.Evals,
		"distinct_nontrivial": ndist,
		"rule":                ck.Rule,
		"samples":             tot.Samples,
		"exhaustive":          tot.Capped == "",
		"outcome_classes":     tot.Outcomes,
		"shards":              n,
	}
	if tot.Capped != "" {
		cov["cap_hit"] = tot.Capped
	}
	for k, v := range tot.Counters {
		cov[k] = v
	}
	if ck.Level == "model_checking" {
		cov["states"] = len(states)
		cov["transitions"] = tot.Transitions
		cov["traces_validated_against_impl"] = tot.Traces
	}
	if raceInfo != nil {
		cov["auxiliary_race_pass"] = raceInfo
	}
	if len(knownLines) > 0 {
		cov["known_findings_reproduced"] = knownLines
	}
	if len(tot.Samples) == 0 {
		cov["samples"] = []any{"(no sample recorded)"}
	}
	ev := map[string]any{
		"property_id": ck.ID,
		"tier":        tier,
		"seed":        seed,
		"level":       ck.Level,
		"coverage":    cov,
		"assumptions": append([]string{}, ck.Assume...),
		"wall_s":      time.Since(start).Seconds(),
		"violations":  nviol,
	}
	b, _ := json.MarshalIndent(ev, "", " ")
	os.MkdirAll(filepath.Join(OutDir(), "evidence"), 0o755)
	if err := os.WriteFile(filepath.Join(OutDir(), "evidence", ck.ID+".json"), b, 0o644); err != nil {
		fmt.Fprintln(os.Stderr, err)
		return 2
	}
	fmt.Printf("%s %s: evaluations=%d distinct_nontrivial=%d outcomes=%d violations=%d known=%d exhaustive=%v wall=%.1fs\n",
		ck.ID, tier, tot.Evals, ndist, len(tot.Outcomes), nviol, len(knownLines), tot.Capped == "", time.Since(start).Seconds())
	return exit
}

func sanitize(s string) string {
	var sb strings.Builder
	for _, r := range s {
		switch {
		case r >= 'a' && r <= 'z', r >= 'A' && r <= 'Z', r >= '0' && r <= '9', r == '-', r == '_', r == '.':
			sb.WriteRune(r)
		default:
			sb.WriteRune('_')
		}
	}
	out := sb.String()
	if len(out) > 120 {
		out = out[:120] + fmt.Sprintf("-%x", Hash(s))
	}
	return out
}
