package mc

import (
	"crypto/md5"
	"encoding/binary"
)

// Independent decoder of the documented WAL format (docs/design/durable_writes_design.txt); it does
// not use executor/walreplay.go. Used to read what the implementation wrote (C05, C06, C28, C34).

type WALMsg struct {
	Kind string // STATUS | TI | TG | JUNK
	Off  int    // offset of the message id byte
	End  int    // one past the last byte
	// STATUS
	FileStatus, ReplayState int8
	Owner                   int64
	// TI
	TGID   int64
	Dest   int8 // 0 WAL, 1 CHECKPOINT
	Status int8 // 0 PREPARING, 1 COMMITINTENDED, 2 COMMITCOMPLETE
	// TG
	Body     []byte // serialized TG (without length and checksum)
	ChecksOK bool
}

// DecodeWAL scans b from the start. Unknown bytes become JUNK messages of length 1 (the
// implementation resynchronises byte-wise as well).
func DecodeWAL(b []byte) []WALMsg {
	var out []WALMsg
	i := 0
	for i < len(b) {
		switch b[i] {
		case 2: // STATUS
			if i+11 > len(b) {
				out = append(out, WALMsg{Kind: "TRUNC", Off: i, End: len(b)})
				return out
			}
			out = append(out, WALMsg{Kind: "STATUS", Off: i, End: i + 11, FileStatus: int8(b[i+1]), ReplayState: int8(b[i+2]),
				Owner: int64(binary.LittleEndian.Uint64(b[i+3:]))})
			i += 11
		case 1: // TXNINFO
			if i+11 > len(b) {
				out = append(out, WALMsg{Kind: "TRUNC", Off: i, End: len(b)})
				return out
			}
			out = append(out, WALMsg{Kind: "TI", Off: i, End: i + 11, TGID: int64(binary.LittleEndian.Uint64(b[i+1:])), Dest: int8(b[i+9]), Status: int8(b[i+10])})
			i += 11
		case 0: // TGDATA
			if i+9 > len(b) {
				out = append(out, WALMsg{Kind: "TRUNC", Off: i, End: len(b)})
				return out
			}
			l := int64(binary.LittleEndian.Uint64(b[i+1:]))
			if l < 16 || int64(i)+9+l+16 > int64(len(b)) {
				out = append(out, WALMsg{Kind: "JUNK", Off: i, End: i + 1})
				i++
				continue
			}
			body := b[i+9 : i+9+int(l)]
			sum := b[i+9+int(l) : i+9+int(l)+16]
			h := md5.New()
			h.Write(b[i+1 : i+9])
			h.Write(body)
			ok := string(h.Sum(nil)) == string(sum)
			if !ok {
				out = append(out, WALMsg{Kind: "JUNK", Off: i, End: i + 1})
				i++
				continue
			}
			out = append(out, WALMsg{Kind: "TG", Off: i, End: i + 9 + int(l) + 16, TGID: int64(binary.LittleEndian.Uint64(body)), Body: body, ChecksOK: ok})
			i += 9 + int(l) + 16
		default:
			out = append(out, WALMsg{Kind: "JUNK", Off: i, End: i + 1})
			i++
		}
	}
	return out
}
