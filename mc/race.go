package mc

import (
	"fmt"
	"os"
	"os/exec"
	"path/filepath"
	"sort"
	"strings"
	"sync"
)

// RaceSpec is the AUXILIARY free-running pass of a concurrency check. The cooperative scheduler's
// hand-offs are happens-before edges, so the exhaustive exploration cannot see unsynchronised memory
// accesses; the same kind of harness body is therefore also run free (real goroutines, real timers,
// real files in a scratch directory, NO source rewriting) in a second binary built with -race. This
// pass samples schedules — it is not part of the exhaustive verdict and is reported separately in the
// evidence — but every race it reports is a concrete witness and is judged like any other violation.
type RaceSpec struct {
	Scenarios []string
	Quick     int                                      // processes per scenario
	Thorough  int
}

const modPrefix = "github.com/alpacahq/marketstore/v4/"

// parseRaces extracts, from race-detector output, one signature per report: the innermost repository
// functions of the two conflicting accesses.
func parseRaces(out string) (sigs map[string]string, outside int) {
	sigs = map[string]string{}
	for _, blk := range strings.Split(out, "WARNING: DATA RACE")[1:] {
		if i := strings.Index(blk, "=================="); i >= 0 {
			blk = blk[:i]
		}
		secs := strings.Split(strings.TrimSpace(blk), "\n\n")
		var fr []string
		for _, sec := range secs {
			first := strings.SplitN(sec, "\n", 2)[0]
			if !(strings.Contains(first, " at 0x") && strings.Contains(first, "by ")) {
				continue // "Goroutine N created at:" sections
			}
			f := "-"
			for _, l := range strings.Split(sec, "\n")[1:] {
				l = strings.TrimSpace(l)
				if strings.HasPrefix(l, modPrefix) && !strings.HasPrefix(l, modPrefix+"verif/") {
					f = strings.TrimPrefix(l, modPrefix)
					if k := strings.LastIndex(f, "("); k > 0 {
						f = f[:k]
					}
					break
				}
			}
			fr = append(fr, f)
		}
		if len(fr) < 2 {
			continue
		}
		fr = fr[:2]
		if fr[0] == "-" && fr[1] == "-" {
			outside++
			continue
		}
		sort.Strings(fr)
		sg := "data-race|" + fr[0] + "|" + fr[1]
		if _, ok := sigs[sg]; !ok {
			if len(blk) > 3500 {
				blk = blk[:3500]
			}
			sigs[sg] = strings.TrimSpace(blk)
		}
	}
	return
}

// racePass runs the auxiliary pass and merges its reports into viol. Returns evidence fields.
func racePass(ck *Check, tier string, seed int64, viol map[string]*Violation) map[string]any {
	info := map[string]any{"kind": "auxiliary free-running -race pass (sampling; not part of the exhaustive verdict)"}
	bin := os.Getenv("VERIF_RACEBIN")
	if st, err := os.Stat(bin); bin == "" || err != nil || st.IsDir() {
		info["status"] = "skipped: race-instrumented binary not available"
		return info
	}
	runs := ck.Race.Quick
	if tier == "thorough" {
		runs = ck.Race.Thorough
	}
	type job struct {
		scen string
		k    int
	}
	var jobs []job
	for _, s := range ck.Race.Scenarios {
		for k := 0; k < runs; k++ {
			jobs = append(jobs, job{s, k})
		}
	}
	base, err := os.MkdirTemp(filepath.Join(VerifDir, ".work"), "race-"+ck.ID+"-")
	if err != nil {
		info["status"] = "skipped: " + err.Error()
		return info
	}
	defer os.RemoveAll(base)
	var mu sync.Mutex
	var wg sync.WaitGroup
	sem := make(chan struct{}, 8) // each process is itself parallel
	completed, abnormal, reports, outside := 0, 0, 0, 0
	for ji, j := range jobs {
		wg.Add(1)
		go func(ji int, j job) {
			defer wg.Done()
			sem <- struct{}{}
			defer func() { <-sem }()
			root := filepath.Join(base, fmt.Sprintf("r%d", ji))
			os.MkdirAll(root, 0o755)
			defer os.RemoveAll(root)
			cmd := exec.Command(bin, ck.ID, "--race-worker", j.scen, "--root", root, "--seed", fmt.Sprint(seed*1000+int64(j.k)))
			cmd.Env = append(os.Environ(), "GORACE=halt_on_error=0 exitcode=0 history_size=3", "GOMAXPROCS=4")
			var sb strings.Builder
			cmd.Stderr = &sb
			cmd.Stdout = &sb
			_ = cmd.Run()
			out := sb.String()
			sg, o := parseRaces(out)
			mu.Lock()
			defer mu.Unlock()
			if strings.Contains(out, "RACEPASS-DONE") {
				completed++
			} else {
				abnormal++ // process exit (log.Fatal), timeout: inconclusive, never a verdict by itself
			}
			outside += o
			for k, rep := range sg {
				reports++
				if v, ok := viol[k]; ok {
					v.Count++
				} else {
					viol[k] = &Violation{Sig: k, What: fmt.Sprintf("race detector report in free-running scenario %q:\n%s", j.scen, rep), Count: 1,
						Spec: []byte(fmt.Sprintf(`{"race_scenario":%q,"seed":%d}`, j.scen, seed*1000+int64(j.k)))}
				}
			}
		}(ji, j)
	}
	wg.Wait()
	info["status"] = "ran"
	info["processes"] = len(jobs)
	info["completed"] = completed
	info["inconclusive"] = abnormal
	info["race_reports"] = reports
	info["reports_outside_repository_code"] = outside
	info["scenarios"] = ck.Race.Scenarios
	return info
}
