// racepass: the free-running, race-instrumented twin of the concurrency harnesses. Built by bin/check with
// `go build -race` from the UNREWRITTEN repository sources (only the virtual packages are overlaid).
//   racepass <ID> --race-worker <scenario> --root <dir> --seed <n>
package main

import (
	"fmt"
	"os"
	"strconv"
	"time"

	"github.com/alpacahq/marketstore/v4/verif/race"
)

func main() {
	if len(os.Args) < 2 {
		os.Exit(2)
	}
	body := race.Bodies[os.Args[1]]
	var scen, root string
	var seed int64
	a := os.Args[2:]
	for i := 0; i+1 < len(a); i++ {
		switch a[i] {
		case "--race-worker":
			scen = a[i+1]
		case "--root":
			root = a[i+1]
		case "--seed":
			seed, _ = strconv.ParseInt(a[i+1], 10, 64)
		}
	}
	if body == nil || root == "" {
		os.Exit(2)
	}
	go func() {
		time.Sleep(120 * time.Second)
		fmt.Fprintln(os.Stderr, "RACEPASS-TIMEOUT")
		os.Exit(5)
	}()
	func() {
		defer func() {
			if r := recover(); r != nil {
				fmt.Fprintf(os.Stderr, "RACEPASS-PANIC %v\n", r)
			}
		}()
		body(scen, root, seed)
	}()
	fmt.Fprintln(os.Stderr, "RACEPASS-DONE")
}
