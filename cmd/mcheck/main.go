// mcheck: single binary holding every property check. Built by bin/check from the current /repo
// working tree through `go build -tags verif -overlay` (see tools/instr).
package main

import (
	"os"

	_ "github.com/alpacahq/marketstore/v4/verif/checks"
	"github.com/alpacahq/marketstore/v4/verif/mc"
)

func main() { os.Exit(mc.Main(os.Args[1:])) }
