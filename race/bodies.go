// Package race holds the free-running bodies of the auxiliary -race pass (see mc/race.go). It is built
// into cmd/racepass from the UNREWRITTEN repository sources with -race: real goroutines, real sync, real
// timers, real files below `root`. Each process runs one scenario once; nothing is judged here except
// that the run completes — the race detector's reports are collected by the driver in mc.
package race

import (
	"fmt"
	"math/rand"
	"os"
	"sync"
	"time"

	"github.com/alpacahq/marketstore/v4/utils/io"
	"github.com/alpacahq/marketstore/v4/verif/world"
)

func raceJitter(r *rand.Rand) {
	switch r.Intn(4) {
	case 0:
		time.Sleep(time.Duration(r.Intn(300)) * time.Microsecond)
	case 1:
		time.Sleep(time.Duration(r.Intn(3)) * time.Millisecond)
	}
}

func raceStart(root string, cfg world.Config) *world.World {
	cfg.Root = root
	w, obs := world.Start(cfg)
	if !obs.OK() {
		fmt.Fprintln(os.Stderr, "RACEPASS-STARTUP-FAILED", obs.String())
		os.Exit(4)
	}
	return w
}

// raceC18: concurrent write requests and queries with the background WAL writer running.
func raceC18(scen, root string, seed int64) {
	w := raceStart(root, world.Config{BackgroundSync: true})
	base := time.Date(2021, 3, 1, 10, 0, 0, 0, time.UTC)
	wr := func(key string, variable bool, t time.Time, tag int32) {
		cols := []any{[]int32{tag}, []int32{tag}}
		if variable {
			_ = w.WriteCS(key, csVar([]time.Time{t}, []string{"V", "W"}, cols), true)
		} else {
			_ = w.WriteCS(key, csFixed([]time.Time{t}, []string{"V", "W"}, cols), false)
		}
	}
	wr("A/1Min/F", false, base, 1)
	wr("A/1Min/T", true, base, 2)
	wr("B/1Min/F", false, base, 3)
	type th struct {
		key      string
		variable bool
		write    bool
	}
	var ths []th
	switch scen {
	case "same-bucket":
		ths = []th{{"A/1Min/F", false, true}, {"A/1Min/F", false, true}, {"A/1Min/F", false, false}, {"A/1Min/T", true, true}, {"A/1Min/T", true, true}, {"A/1Min/T", true, false}}
	case "new-buckets": // every writer creates its bucket (and a new year file) on the fly
		ths = []th{{"N1/1Min/F", false, true}, {"N2/1Min/F", false, true}, {"N3/1Min/T", true, true}, {"A/1Min/F", false, false}, {"N1/1Min/F", false, false}}
	default: // "mixed"
		ths = []th{{"A/1Min/F", false, true}, {"B/1Min/F", false, true}, {"A/1Min/T", true, true}, {"A/1Min/F", false, false}, {"A/1Min/T", true, false}, {"B/1Min/F", false, false}}
	}
	var wg sync.WaitGroup
	for i, t := range ths {
		i, t := i, t
		wg.Add(1)
		go func() {
			defer wg.Done()
			r := rand.New(rand.NewSource(seed*100 + int64(i)))
			for k := 0; k < 12; k++ {
				raceJitter(r)
				if t.write {
					ts := base.Add(time.Duration(r.Intn(4)) * time.Minute)
					if k%5 == 4 {
						ts = ts.AddDate(1, 0, 0) // a new year file now and then
					}
					wr(t.key, t.variable, ts, int32(100*i+k))
				} else {
					_, _ = w.QueryAll(t.key)
				}
			}
		}()
	}
	wg.Wait()
	w.Close()
}

// raceC17: concurrent catalog operations.
func raceC17(scen, root string, seed int64) {
	w := raceStart(root, world.Config{BackgroundSync: false})
	c17Apply(w, c17Op{"write1", "A/1Min/X"})
	c17Apply(w, c17Op{"write1", "A/1H/X"})
	var sets [][]c17Op
	switch scen {
	case "create-write-destroy":
		sets = [][]c17Op{
			{{"create1", "A/1Min/Y"}, {"write1", "A/1Min/Y"}},
			{{"write2", "A/1Min/X"}, {"write2", "A/1H/X"}},
			{{"create1", "B/1Min/X"}, {"destroy", "B/1Min/X"}},
		}
	default: // "create-write-query": no destroy, so a query never meets a vanishing file
		sets = [][]c17Op{
			{{"create1", "A/1Min/Y"}, {"write1", "A/1Min/Y"}, {"write2", "A/1Min/Y"}},
			{{"write2", "A/1Min/X"}, {"create1", "B/1Min/X"}, {"write1", "B/1Min/X"}},
			{{"query", "A/1Min/X"}, {"query", "A/1H/X"}, {"query", "A/1Min/X"}},
			{{"write2", "A/1H/X"}, {"query", "A/1H/X"}},
		}
	}
	var wg sync.WaitGroup
	for i, ops := range sets {
		i, ops := i, ops
		wg.Add(1)
		go func() {
			defer wg.Done()
			defer func() { recover() }()
			r := rand.New(rand.NewSource(seed*100 + int64(i)))
			for _, op := range ops {
				raceJitter(r)
				c17Apply(w, op)
			}
		}()
	}
	wg.Wait()
	w.Close()
}

// Bodies by property id.
var Bodies = map[string]func(scenario, root string, seed int64){
	"C18": raceC18,
	"C17": raceC17,
}

func csFixed(times []time.Time, names []string, cols []any) *io.ColumnSeries {
	cs := io.NewColumnSeries()
	ep := make([]int64, len(times))
	for i, t := range times {
		ep[i] = t.Unix()
	}
	cs.AddColumn("Epoch", ep)
	for i, n := range names {
		cs.AddColumn(n, cols[i])
	}
	return cs
}

func csVar(times []time.Time, names []string, cols []any) *io.ColumnSeries {
	cs := csFixed(times, names, cols)
	ns := make([]int32, len(times))
	for i, t := range times {
		ns[i] = int32(t.Nanosecond())
	}
	cs.AddColumn("Nanoseconds", ns)
	return cs
}

type c17Op struct {
	kind string
	key  string
}

func c17Apply(w *world.World, op c17Op) {
	switch op.kind {
	case "create1":
		_ = w.Create(op.key, []string{"V"}, []string{"i4"}, false)
	case "write1", "write2":
		year := 2021
		if op.kind == "write2" {
			year = 2022
		}
		t := time.Date(year, 3, 1, 10, 0, 0, 0, time.UTC)
		_ = w.WriteCS(op.key, csFixed([]time.Time{t}, []string{"V"}, []any{[]int32{int32(year)}}), false)
	case "destroy":
		_ = w.Destroy(op.key)
	case "query":
		_, _ = w.QueryAll(op.key)
	}
}
