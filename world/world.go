// Package world runs one marketstore server "process" on the vos device, started exactly the way
// cmd/start does it (di.NewContainer + executor.NewInstanceSetup), and offers thin helpers around the
// public write/query services for the harnesses.
package world

import (
	"context"
	realos "os"
	"fmt"
	"math"
	"reflect"
	"runtime/debug"
	"sort"
	"strings"
	"time"

	"github.com/alpacahq/marketstore/v4/catalog"
	"github.com/alpacahq/marketstore/v4/executor"
	"github.com/alpacahq/marketstore/v4/frontend"
	"github.com/alpacahq/marketstore/v4/internal/di"
	"github.com/alpacahq/marketstore/v4/plugins/trigger"
	"github.com/alpacahq/marketstore/v4/sqlparser"
	"github.com/alpacahq/marketstore/v4/utils"
	"github.com/alpacahq/marketstore/v4/utils/io"
	"github.com/alpacahq/marketstore/v4/utils/log"
	"github.com/alpacahq/marketstore/v4/verif/rt/vos"
	"github.com/alpacahq/marketstore/v4/verif/rt/vrt"
)

const (
	Outer = "/data"      // larger tree holding sentinels
	Root  = "/data/root" // the configured data root
)

type Config struct {
	Root              string
	Timezone          *time.Location
	BackgroundSync    bool
	WALRotateInterval int
	DisableVarComp    bool
	Triggers          []*trigger.Matcher
	ReplicationSender executor.ReplicationSender // nil = Nop
	Clock             time.Time                  // virtual "now" at startup (zero = keep)
}

type World struct {
	Cfg    Config
	C      *di.Container
	Cat    *catalog.Directory
	WAL    *executor.WALFileType
	Writer frontend.Writer
	QS     *frontend.QueryService
	DS     *frontend.DataService
	Agg    *sqlparser.AggRunner
	closed bool
}

// StartObs is what the startup path did.
type StartObs struct {
	Panic string // non-empty: startup panicked (value + trimmed stack)
	Exit  *int   // non-nil: startup called os.Exit / log.Fatal
}

func (o StartObs) OK() bool { return o.Panic == "" && o.Exit == nil }
func (o StartObs) String() string {
	if o.Exit != nil {
		return fmt.Sprintf("exit(%d)", *o.Exit)
	}
	return o.Panic
}

func init() { log.SetLevel(log.FATAL) }

// FreshDevice installs an empty device with the outer tree and sentinel files.
func FreshDevice() *vos.Device {
	d := vos.NewDevice()
	vos.Install(d)
	vrt.ResetClock() // every case starts at the same virtual instant: executions are reproducible
	d.SetLogging(false)
	_ = d.MkdirAll(Outer, 0o770)
	_ = d.WriteFile(Outer+"/SENTINEL", []byte("do not touch"), 0o600)
	_ = d.MkdirAll(Outer+"/other/1Min/X", 0o770)
	_ = d.WriteFile(Outer+"/other/1Min/X/2020.bin", []byte("outside data"), 0o600)
	_ = d.WriteFile("/SENTINEL", []byte("root sentinel"), 0o600)
	d.SetLogging(true)
	return d
}

// FreshDeviceFS returns the tree a FreshDevice starts from (without installing anything).
func FreshDeviceFS() *vos.FS {
	cur := vos.Cur()
	d := FreshDevice()
	f := d.FS().Clone()
	vos.Install(cur)
	return f
}

// Start runs the startup path on the current device. On a startup failure the returned World is nil.
func Start(cfg Config) (w *World, obs StartObs) {
	if cfg.Root == "" {
		cfg.Root = Root
	}
	if cfg.Timezone == nil {
		cfg.Timezone = time.UTC
	}
	if cfg.WALRotateInterval == 0 {
		cfg.WALRotateInterval = 5
	}
	if !cfg.Clock.IsZero() {
		vrt.SetClock(cfg.Clock)
	}
	vrt.ResetGlobals()
	mc := utils.NewDefaultConfig(cfg.Root)
	mc.Timezone = cfg.Timezone
	mc.BackgroundSync = cfg.BackgroundSync
	mc.WALRotateInterval = cfg.WALRotateInterval
	mc.DisableVariableCompression = cfg.DisableVarComp
	mc.StartTime = vrt.Now()
	utils.InstanceConfig = *mc
	defer func() {
		if r := recover(); r != nil {
			w = nil
			if ep, ok := r.(vos.ExitPanic); ok {
				obs.Exit = &ep.Code
				return
			}
			obs.Panic = fmt.Sprint(r) + " @ " + TrimStack(string(debug.Stack()))
		}
	}()
	c := di.NewContainer(mc)
	w = &World{Cfg: cfg, C: c}
	if cfg.ReplicationSender == nil {
		c.GetReplicationSender().Run(context.Background())
	}
	if cfg.Triggers != nil {
		c.InjectTriggerMatchers(cfg.Triggers)
	} else {
		c.InjectTriggerMatchers([]*trigger.Matcher{})
	}
	c.GetStartTriggerPluginDispatcher()
	inst := executor.NewInstanceSetup(c.GetCatalogDir(), c.GetInitWALFile())
	w.Cat = inst.CatalogDir
	w.WAL = inst.WALFile
	if cfg.ReplicationSender != nil && w.WAL != nil {
		w.WAL.ReplicationSender = cfg.ReplicationSender
	}
	w.Writer = c.GetWriter()
	w.QS = c.GetHTTPService()
	w.Agg = c.GetAggRunner()
	w.DS = frontend.NewDataService(c.GetAbsRootDir(), w.Cat, w.Agg, w.Writer, w.QS)
	return w, obs
}

// TrimStack keeps the frames of repository code.
func TrimStack(st string) string {
	lines := strings.Split(st, "\n")
	var keep []string
	for i := 0; i+1 < len(lines) && len(keep) < 6; i++ {
		l := lines[i]
		if strings.HasPrefix(l, "github.com/alpacahq/marketstore/v4/") && !strings.Contains(l, "/verif/") {
			fn := strings.TrimPrefix(l, "github.com/alpacahq/marketstore/v4/")
			if k := strings.LastIndex(fn, "("); k > 0 {
				fn = fn[:k]
			}
			keep = append(keep, fn)
		}
	}
	return strings.Join(keep, " < ")
}

// Close ends the world in passthrough mode (stops the trigger dispatcher goroutine through the
// public graceful-shutdown entry point). In controlled mode teardown is done by the scheduler.
func (w *World) Close() {
	if w == nil || w.closed || w.WAL == nil || vrt.Controlled() {
		return
	}
	w.closed = true
	defer func() { recover() }()
	w.WAL.Shutdown()
}

// ---------------------------------------------------------------------------------------------
// tables

// Table is a query result in row form. Cols[0] is always "Epoch".
type Table struct {
	Cols []string
	Rows [][]any
}

func (t *Table) Len() int {
	if t == nil {
		return 0
	}
	return len(t.Rows)
}

func (t *Table) Col(name string) int {
	for i, c := range t.Cols {
		if c == name {
			return i
		}
	}
	return -1
}

// String renders the table compactly (for samples and replay files).
func (t *Table) String() string {
	if t == nil {
		return "<nil>"
	}
	var sb strings.Builder
	sb.WriteString(strings.Join(t.Cols, ","))
	for _, r := range t.Rows {
		sb.WriteString(" | ")
		for i, v := range r {
			if i > 0 {
				sb.WriteString(",")
			}
			sb.WriteString(FmtVal(v))
		}
	}
	return sb.String()
}

func FmtVal(v any) string {
	switch x := v.(type) {
	case float32:
		if math.IsNaN(float64(x)) {
			return "NaN"
		}
		return fmt.Sprintf("%g", x)
	case float64:
		if math.IsNaN(x) {
			return "NaN"
		}
		return fmt.Sprintf("%g", x)
	case [16]rune:
		return fmt.Sprintf("%q", string(x[:]))
	}
	return fmt.Sprint(v)
}

// FromCS converts a column series into a table (column order as reported by the series).
func FromCS(cs *io.ColumnSeries) *Table {
	if cs == nil {
		return &Table{}
	}
	t := &Table{}
	names := cs.GetColumnNames()
	n := cs.Len()
	cols := make([]reflect.Value, len(names))
	for i, nm := range names {
		t.Cols = append(t.Cols, nm)
		cols[i] = reflect.ValueOf(cs.GetColumn(nm))
	}
	for r := 0; r < n; r++ {
		row := make([]any, len(names))
		for i := range names {
			if cols[i].IsValid() && r < cols[i].Len() {
				row[i] = cols[i].Index(r).Interface()
			}
		}
		t.Rows = append(t.Rows, row)
	}
	return t
}

// ---------------------------------------------------------------------------------------------
// operations

func Key(s string) *io.TimeBucketKey { return io.NewTimeBucketKey(s) }

var (
	MinTime = time.Unix(0, 0)
	MaxTime = time.Unix(math.MaxInt64, 0)         // what the frontend uses when a request names no end
)

// Query runs a range query through QueryService.ExecuteQuery and returns the key's table.
func (w *World) Query(key string, start, end time.Time, limit int, fromStart bool, cols []string) (*Table, error) {
	tbk := Key(key)
	csm, err := w.QS.ExecuteQuery(tbk, start, end, limit, fromStart, cols)
	if err != nil {
		return nil, err
	}
	for k, cs := range csm {
		if k.GetItemKey() == Key(key).GetItemKey() || len(csm) == 1 {
			return FromCS(cs), nil
		}
	}
	return &Table{}, nil
}

// QueryAll is the unrestricted query.
func (w *World) QueryAll(key string) (*Table, error) {
	return w.Query(key, MinTime, MaxTime, 0, false, nil)
}

// QueryCSM returns the raw map (multi-symbol queries).
func (w *World) QueryCSM(key string, start, end time.Time, limit int, fromStart bool, cols []string) (io.ColumnSeriesMap, error) {
	return w.QS.ExecuteQuery(Key(key), start, end, limit, fromStart, cols)
}

// WriteCS writes one column series to one bucket through the server's writer.
func (w *World) WriteCS(key string, cs *io.ColumnSeries, variable bool) error {
	csm := io.NewColumnSeriesMap()
	csm.AddColumnSeries(*Key(key), cs)
	return w.Writer.WriteCSM(csm, variable)
}

func (w *World) WriteCSM(csm io.ColumnSeriesMap, variable bool) error {
	return w.Writer.WriteCSM(csm, variable)
}

// Create creates a bucket through DataService.Create.
func (w *World) Create(key string, names, types []string, variable bool) error {
	req := &frontend.MultiCreateRequest{Requests: []frontend.CreateRequest{{
		Key: key + ":" + io.DefaultTimeBucketSchema, ColumnNames: names, ColumnTypes: types, IsVariableLength: variable}}}
	resp := &frontend.MultiServerResponse{}
	if err := w.DS.Create(nil, req, resp); err != nil {
		return err
	}
	for _, r := range resp.Responses {
		if r.Error != "" {
			return fmt.Errorf("%s", r.Error)
		}
	}
	if len(resp.Responses) == 0 {
		return fmt.Errorf("no response")
	}
	return nil
}

// Destroy removes a bucket through DataService.Destroy.
func (w *World) Destroy(key string) error {
	req := &frontend.MultiKeyRequest{Requests: []frontend.KeyRequest{{Key: key + ":" + io.DefaultTimeBucketSchema}}}
	resp := &frontend.MultiServerResponse{}
	if err := w.DS.Destroy(nil, req, resp); err != nil {
		return err
	}
	for _, r := range resp.Responses {
		if r.Error != "" {
			return fmt.Errorf("%s", r.Error)
		}
	}
	return nil
}

// GetInfo returns the server's reported schema of a bucket.
func (w *World) GetInfo(key string) (*frontend.GetInfoResponse, error) {
	req := &frontend.MultiKeyRequest{Requests: []frontend.KeyRequest{{Key: key + ":" + io.DefaultTimeBucketSchema}}}
	resp := &frontend.MultiGetInfoResponse{}
	if err := w.DS.GetInfo(nil, req, resp); err != nil {
		return nil, err
	}
	if len(resp.Responses) == 0 {
		return nil, fmt.Errorf("no response")
	}
	if resp.Responses[0].ServerResp.Error != "" {
		return nil, fmt.Errorf("%s", resp.Responses[0].ServerResp.Error)
	}
	return &resp.Responses[0], nil
}

// Buckets lists the catalog's bucket keys, sorted.
func (w *World) Buckets() []string {
	l := catalog.ListTimeBucketKeyNames(w.Cat)
	sort.Strings(l)
	return l
}

// Safely runs f, converting a panic into an error string (second result).
func Safely(f func()) (panicked string) {
	defer func() {
		if r := recover(); r != nil {
			if ep, ok := r.(vos.ExitPanic); ok {
				panicked = fmt.Sprintf("exit(%d)", ep.Code)
				return
			}
			if realos.Getenv("VERIF_DEBUG") != "" {
				fmt.Fprintf(realos.Stderr, "PANIC %v\n%s\n", r, debug.Stack())
			}
			panicked = fmt.Sprint(r) + " @ " + TrimStack(string(debug.Stack()))
		}
	}()
	f()
	return ""
}
