// Package vos is an in-memory filesystem device with an operation log. It replaces package "os"
// (by import rewriting, see tools/instr) in the packages of marketstore that touch durable state.
//
// Every mutating call appends an Op to the device log; an image is a pure function of a log
// prefix (plus a loss pattern for the power-loss model), which is what the crash explorer
// enumerates. Semantics follow POSIX as used by the code under test and are validated against the
// real kernel by `mcheck vos-conformance`.
package vos

import (
	"errors"
	"io"
	"io/fs"
	realos "os"
	"path/filepath"
	"sort"
	"strings"
	"sync"
	"syscall"
	"time"
)

// ---- names re-exported so that `import os "…/vos"` type-checks unchanged code ----

type (
	FileInfo  = fs.FileInfo
	FileMode  = fs.FileMode
	DirEntry  = fs.DirEntry
	PathError = fs.PathError
	Signal    = realos.Signal
)

const (
	O_RDONLY = realos.O_RDONLY
	O_WRONLY = realos.O_WRONLY
	O_RDWR   = realos.O_RDWR
	O_APPEND = realos.O_APPEND
	O_CREATE = realos.O_CREATE
	O_EXCL   = realos.O_EXCL
	O_SYNC   = realos.O_SYNC
	O_TRUNC  = realos.O_TRUNC

	ModeDir  = fs.ModeDir
	ModePerm = fs.ModePerm

	PathSeparator = realos.PathSeparator
	DevNull       = realos.DevNull
)

var (
	ErrNotExist   = fs.ErrNotExist
	ErrExist      = fs.ErrExist
	ErrPermission = fs.ErrPermission
	ErrClosed     = fs.ErrClosed
	ErrInvalid    = fs.ErrInvalid

	Stdin     = realos.Stdin
	Stdout    = realos.Stdout
	Stderr    = realos.Stderr
	Args      = realos.Args
	Interrupt = realos.Interrupt
	Kill      = realos.Kill
)

func IsNotExist(err error) bool   { return realos.IsNotExist(err) }
func IsExist(err error) bool      { return realos.IsExist(err) }
func IsPermission(err error) bool { return realos.IsPermission(err) }
func Getenv(k string) string      { return realos.Getenv(k) }
func Setenv(k, v string) error    { return realos.Setenv(k, v) }
func LookupEnv(k string) (string, bool) {
	return realos.LookupEnv(k)
}
func Getpid() int               { return 4242 }
func Getwd() (string, error)    { return "/", nil }
func Hostname() (string, error) { return "vos", nil }
func TempDir() string           { return "/tmp" }
func Environ() []string         { return realos.Environ() }
func ExpandEnv(s string) string { return realos.ExpandEnv(s) }
func UserHomeDir() (string, error) {
	return "/home/vos", nil
}

// ExitPanic is what Exit panics with; the World boundary recovers it ("server exited").
type ExitPanic struct{ Code int }

func Exit(code int) { panic(ExitPanic{code}) }

// ---- device ----

type OpKind uint8

const (
	OpCreate OpKind = iota + 1 // create empty regular file
	OpMkdir
	OpWrite    // data write (volatile until fsync/syncall under the power-loss model)
	OpTruncate // size change (metadata)
	OpRename
	OpRemove
	OpRemoveAll
	OpFsync
	OpSyncAll
	OpMark // pseudo-op written by harnesses (issue/ack/created/...)
)

func (k OpKind) String() string {
	if k == 0 {
		return "read"
	}
	return [...]string{"?", "create", "mkdir", "write", "truncate", "rename", "remove", "removeall", "fsync", "syncall", "mark"}[k]
}

// Op is one logged device operation.
type Op struct {
	Kind  OpKind
	Path  string
	Path2 string // rename target; mark payload
	Off   int64  // write offset; truncate size
	Data  []byte // write payload (owned by the log)
	Ext   bool   // write extended the file (size change is metadata)
	Tid   int    // logical thread that issued it (set by vrt through SetThread)
}

const pageSize = 4096

type node struct {
	dir      bool
	children map[string]*node // dir
	pages    map[int64][]byte // file: page index -> 4096 bytes
	owned    map[int64]bool   // pages private to this node (copy-on-write after Clone)
	size     int64
	mtime    int64
	nlinkGen int // bumped on unlink so that open handles keep working
}

// FS is a filesystem tree. The zero value is not usable; use NewFS.
type FS struct {
	root *node
}

func NewFS() *FS { return &FS{root: &node{dir: true, children: map[string]*node{}}} }

// Clone returns a copy-on-write copy.
func (f *FS) Clone() *FS { return &FS{root: f.root.clone()} }

func (n *node) clone() *node {
	c := &node{dir: n.dir, size: n.size, mtime: n.mtime}
	if n.dir {
		c.children = make(map[string]*node, len(n.children))
		for k, v := range n.children {
			c.children[k] = v.clone()
		}
		return c
	}
	c.pages = make(map[int64][]byte, len(n.pages))
	for k, v := range n.pages {
		c.pages[k] = v
	}
	n.owned = nil
	return c
}

// Device is the process-wide disk: a tree, an operation log and counters.
type Device struct {
	mu      sync.Mutex
	fs      *FS
	log     []Op
	logging bool
	tid     int
	clock   int64
	// Reads records read-side answers for the conformance check (optional).
	OnOp func(op *Op) // called (without lock) after an op is logged; used by vrt for scheduling points
}

var dev = NewDevice()

// NewDevice returns an empty device with logging on.
func NewDevice() *Device { return &Device{fs: NewFS(), logging: true} }

// Cur returns the current process-wide device.
func Cur() *Device { return dev }

// Install makes d the process-wide device.
func Install(d *Device) { dev = d }

// FromFS makes a device whose initial tree is (a COW copy of) f.
func FromFS(f *FS) *Device { return &Device{fs: f.Clone(), logging: true} }

func (d *Device) FS() *FS { return d.fs }

// Log returns the operation log (not copied; do not modify).
func (d *Device) Log() []Op { d.mu.Lock(); defer d.mu.Unlock(); return d.log }

func (d *Device) LogLen() int { d.mu.Lock(); defer d.mu.Unlock(); return len(d.log) }

// ResetLog drops the log (the tree is kept): the current tree becomes the base image.
func (d *Device) ResetLog() { d.mu.Lock(); d.log = nil; d.mu.Unlock() }

func (d *Device) SetLogging(on bool) { d.mu.Lock(); d.logging = on; d.mu.Unlock() }

// SetThread attributes subsequent ops to logical thread tid.
func (d *Device) SetThread(tid int) { d.tid = tid }

// Mark appends a pseudo-op.
func (d *Device) Mark(kind, payload string) {
	d.mu.Lock()
	d.log = append(d.log, Op{Kind: OpMark, Path: kind, Path2: payload, Tid: d.tid})
	d.mu.Unlock()
}

func (d *Device) record(op Op) {
	if !d.logging {
		return
	}
	op.Tid = d.tid
	d.log = append(d.log, op)
}

func (d *Device) hook(pre bool, kind OpKind, path string) {
	if PreOp != nil {
		PreOp(kind, path)
	}
}

// PreOp, when set, is called before every mutating device operation and before reads
// (kind 0) with the path concerned; vrt uses it to make device operations scheduling points.
var PreOp func(kind OpKind, path string)

func clean(p string) string {
	if p == "" {
		return ""
	}
	if !strings.HasPrefix(p, "/") {
		p = "/" + p // cwd is "/"
	}
	return filepath.Clean(p)
}

func split(p string) []string {
	p = clean(p)
	if p == "/" {
		return nil
	}
	return strings.Split(p[1:], "/")
}

// nameCheck mirrors the kernel limits NAME_MAX (255) and PATH_MAX (4096).
func nameCheck(p string) error {
	if len(p) >= 4096 {
		return syscall.ENAMETOOLONG
	}
	for _, c := range split(p) {
		if len(c) > 255 {
			return syscall.ENAMETOOLONG
		}
	}
	return nil
}

func perr(op, path string, e error) error { return &fs.PathError{Op: op, Path: path, Err: e} }

// lookup walks to path; returns node or errno.
func (f *FS) lookup(p string) (*node, error) {
	if p == "" {
		return nil, syscall.ENOENT
	}
	if err := nameCheck(p); err != nil {
		return nil, err
	}
	n := f.root
	for _, c := range split(p) {
		if !n.dir {
			return nil, syscall.ENOTDIR
		}
		ch, ok := n.children[c]
		if !ok {
			return nil, syscall.ENOENT
		}
		n = ch
	}
	return n, nil
}

func (f *FS) parent(p string) (*node, string, error) {
	if err := nameCheck(p); err != nil {
		return nil, "", err
	}
	parts := split(p)
	if len(parts) == 0 {
		return nil, "", syscall.EEXIST
	}
	n := f.root
	for _, c := range parts[:len(parts)-1] {
		if !n.dir {
			return nil, "", syscall.ENOTDIR
		}
		ch, ok := n.children[c]
		if !ok {
			return nil, "", syscall.ENOENT
		}
		n = ch
	}
	if !n.dir {
		return nil, "", syscall.ENOTDIR
	}
	return n, parts[len(parts)-1], nil
}

// ---- raw tree mutations (shared by live calls and by log replay) ----

func (f *FS) applyCreate(p string) error {
	par, name, err := f.parent(p)
	if err != nil {
		return err
	}
	if _, ok := par.children[name]; ok {
		return syscall.EEXIST
	}
	par.children[name] = &node{pages: map[int64][]byte{}}
	return nil
}

func (f *FS) applyMkdir(p string) error {
	par, name, err := f.parent(p)
	if err != nil {
		return err
	}
	if _, ok := par.children[name]; ok {
		return syscall.EEXIST
	}
	par.children[name] = &node{dir: true, children: map[string]*node{}}
	return nil
}

func (n *node) writeAt(b []byte, off int64) {
	end := off + int64(len(b))
	for len(b) > 0 {
		pi := off / pageSize
		po := off % pageSize
		k := int64(pageSize) - po
		if k > int64(len(b)) {
			k = int64(len(b))
		}
		pg, ok := n.pages[pi]
		if !ok {
			pg = make([]byte, pageSize)
			n.pages[pi] = pg
			if n.owned == nil {
				n.owned = map[int64]bool{}
			}
			n.owned[pi] = true
		} else if !n.owned[pi] {
			cp := make([]byte, pageSize)
			copy(cp, pg)
			pg = cp
			n.pages[pi] = pg
			if n.owned == nil {
				n.owned = map[int64]bool{}
			}
			n.owned[pi] = true
		}
		copy(pg[po:po+k], b[:k])
		b = b[k:]
		off += k
	}
	if end > n.size {
		n.size = end
	}
}

func (n *node) readAt(b []byte, off int64) int {
	if off >= n.size {
		return 0
	}
	if int64(len(b)) > n.size-off {
		b = b[:n.size-off]
	}
	total := len(b)
	for len(b) > 0 {
		pi := off / pageSize
		po := off % pageSize
		k := int64(pageSize) - po
		if k > int64(len(b)) {
			k = int64(len(b))
		}
		if pg, ok := n.pages[pi]; ok {
			copy(b[:k], pg[po:po+k])
		} else {
			for i := int64(0); i < k; i++ {
				b[i] = 0
			}
		}
		b = b[k:]
		off += k
	}
	return total
}

func (n *node) truncate(size int64) {
	if size < n.size {
		// drop whole pages beyond, zero the tail of the boundary page
		last := size / pageSize
		for pi := range n.pages {
			if pi > last || (pi == last && size%pageSize == 0) {
				delete(n.pages, pi)
				delete(n.owned, pi)
			}
		}
		if size%pageSize != 0 {
			if pg, ok := n.pages[last]; ok {
				if !n.owned[last] {
					cp := make([]byte, pageSize)
					copy(cp, pg)
					pg = cp
					n.pages[last] = pg
					if n.owned == nil {
						n.owned = map[int64]bool{}
					}
					n.owned[last] = true
				}
				for i := size % pageSize; i < pageSize; i++ {
					pg[i] = 0
				}
			}
		}
	}
	n.size = size
}

func (f *FS) applyRemove(p string) error {
	par, name, err := f.parent(p)
	if err != nil {
		return err
	}
	ch, ok := par.children[name]
	if !ok {
		return syscall.ENOENT
	}
	if ch.dir && len(ch.children) > 0 {
		return syscall.ENOTEMPTY
	}
	delete(par.children, name)
	return nil
}

func (f *FS) applyRemoveAll(p string) error {
	par, name, err := f.parent(p)
	if err != nil {
		if errors.Is(err, syscall.ENOENT) || errors.Is(err, syscall.ENOTDIR) {
			return nil
		}
		if clean(p) == "/" {
			f.root.children = map[string]*node{}
			return nil
		}
		return err
	}
	delete(par.children, name)
	return nil
}

func (f *FS) applyRename(from, to string) error {
	fp, fname, err := f.parent(from)
	if err != nil {
		return err
	}
	n, ok := fp.children[fname]
	if !ok {
		return syscall.ENOENT
	}
	tp, tname, err := f.parent(to)
	if err != nil {
		return err
	}
	if ex, ok := tp.children[tname]; ok {
		if ex.dir != n.dir {
			if ex.dir {
				return syscall.EISDIR
			}
			return syscall.ENOTDIR
		}
		if ex.dir && len(ex.children) > 0 {
			return syscall.ENOTEMPTY
		}
	}
	delete(fp.children, fname)
	tp.children[tname] = n
	return nil
}

// Apply replays one logged op onto f (errors are ignored: the log only holds ops that succeeded).
func (f *FS) Apply(op *Op) {
	switch op.Kind {
	case OpCreate:
		_ = f.applyCreate(op.Path)
	case OpMkdir:
		_ = f.applyMkdir(op.Path)
	case OpWrite:
		if n, err := f.lookup(op.Path); err == nil && !n.dir {
			n.writeAt(op.Data, op.Off)
		}
	case OpTruncate:
		if n, err := f.lookup(op.Path); err == nil && !n.dir {
			n.truncate(op.Off)
		}
	case OpRename:
		_ = f.applyRename(op.Path, op.Path2)
	case OpRemove:
		_ = f.applyRemove(op.Path)
	case OpRemoveAll:
		_ = f.applyRemoveAll(op.Path)
	}
}

// ApplyLost replays a data write that is lost at power failure: contents are not written but a
// size extension (metadata) is kept, so the lost range reads as zeros. keep>0 keeps a prefix (tear).
func (f *FS) ApplyLost(op *Op, keep int) {
	if op.Kind != OpWrite {
		f.Apply(op)
		return
	}
	n, err := f.lookup(op.Path)
	if err != nil || n.dir {
		return
	}
	if keep > 0 {
		if keep > len(op.Data) {
			keep = len(op.Data)
		}
		n.writeAt(op.Data[:keep], op.Off)
	}
	if end := op.Off + int64(len(op.Data)); end > n.size {
		n.size = end
	}
}

// ---- file handles ----

type File struct {
	d      *Device
	n      *node
	name   string // as given to Open
	path   string // cleaned absolute
	off    int64
	flag   int
	closed bool
	isDir  bool
}

func (d *Device) OpenFile(name string, flag int, perm FileMode) (*File, error) {
	d.hook(true, 0, name)
	if flag&O_CREATE != 0 || flag&O_TRUNC != 0 {
		d.hook(true, OpCreate, name)
	}
	d.mu.Lock()
	defer d.mu.Unlock()
	p := clean(name)
	n, err := d.fs.lookup(p)
	if err != nil {
		if !errors.Is(err, syscall.ENOENT) || flag&O_CREATE == 0 {
			return nil, perr("open", name, err)
		}
		if err := d.fs.applyCreate(p); err != nil {
			return nil, perr("open", name, err)
		}
		d.record(Op{Kind: OpCreate, Path: p})
		n, _ = d.fs.lookup(p)
	} else if flag&O_CREATE != 0 && flag&O_EXCL != 0 {
		return nil, perr("open", name, syscall.EEXIST)
	}
	if n.dir && flag&(O_WRONLY|O_RDWR) != 0 {
		return nil, perr("open", name, syscall.EISDIR)
	}
	if flag&O_TRUNC != 0 && !n.dir && n.size != 0 {
		n.truncate(0)
		d.record(Op{Kind: OpTruncate, Path: p, Off: 0})
	}
	return &File{d: d, n: n, name: name, path: p, flag: flag, isDir: n.dir}, nil
}

func OpenFile(name string, flag int, perm FileMode) (*File, error) {
	return dev.OpenFile(name, flag, perm)
}
func Open(name string) (*File, error) { return dev.OpenFile(name, O_RDONLY, 0) }
func Create(name string) (*File, error) {
	return dev.OpenFile(name, O_RDWR|O_CREATE|O_TRUNC, 0o666)
}

func (f *File) Name() string { return f.name }
func (f *File) Fd() uintptr  { return 3 }

func (f *File) chk(op string) error {
	if f == nil {
		return fs.ErrInvalid
	}
	if f.closed {
		return perr(op, f.name, fs.ErrClosed)
	}
	return nil
}

func (f *File) Read(b []byte) (int, error) {
	if err := f.chk("read"); err != nil {
		return 0, err
	}
	f.d.hook(true, 0, f.path)
	f.d.mu.Lock()
	defer f.d.mu.Unlock()
	if f.isDir {
		return 0, perr("read", f.name, syscall.EISDIR)
	}
	if f.flag&O_WRONLY != 0 {
		return 0, perr("read", f.name, syscall.EBADF)
	}
	if len(b) == 0 {
		return 0, nil
	}
	n := f.n.readAt(b, f.off)
	f.off += int64(n)
	if n == 0 {
		return 0, io.EOF
	}
	return n, nil
}

func (f *File) ReadAt(b []byte, off int64) (int, error) {
	if err := f.chk("read"); err != nil {
		return 0, err
	}
	if off < 0 {
		return 0, perr("readat", f.name, errors.New("negative offset"))
	}
	f.d.hook(true, 0, f.path)
	f.d.mu.Lock()
	defer f.d.mu.Unlock()
	if f.isDir {
		return 0, perr("read", f.name, syscall.EISDIR)
	}
	n := f.n.readAt(b, off)
	if n < len(b) {
		return n, io.EOF
	}
	return n, nil
}

func (f *File) write(b []byte, off int64) {
	ext := off+int64(len(b)) > f.n.size
	f.n.writeAt(b, off)
	f.d.clock++
	f.n.mtime = f.d.clock
	if f.d.logging {
		cp := make([]byte, len(b))
		copy(cp, b)
		f.d.record(Op{Kind: OpWrite, Path: f.path, Off: off, Data: cp, Ext: ext})
	}
}

func (f *File) Write(b []byte) (int, error) {
	if err := f.chk("write"); err != nil {
		return 0, err
	}
	f.d.hook(true, OpWrite, f.path)
	f.d.mu.Lock()
	defer f.d.mu.Unlock()
	if f.flag&(O_WRONLY|O_RDWR) == 0 {
		return 0, perr("write", f.name, syscall.EBADF)
	}
	if f.flag&O_APPEND != 0 {
		f.off = f.n.size
	}
	if len(b) == 0 {
		return 0, nil
	}
	f.write(b, f.off)
	f.off += int64(len(b))
	return len(b), nil
}

func (f *File) WriteString(s string) (int, error) { return f.Write([]byte(s)) }

func (f *File) WriteAt(b []byte, off int64) (int, error) {
	if err := f.chk("write"); err != nil {
		return 0, err
	}
	if off < 0 {
		return 0, perr("writeat", f.name, errors.New("negative offset"))
	}
	f.d.hook(true, OpWrite, f.path)
	f.d.mu.Lock()
	defer f.d.mu.Unlock()
	if f.flag&(O_WRONLY|O_RDWR) == 0 {
		return 0, perr("write", f.name, syscall.EBADF)
	}
	if f.flag&O_APPEND != 0 {
		return 0, errors.New("os: invalid use of WriteAt on file opened with O_APPEND")
	}
	if len(b) == 0 {
		return 0, nil
	}
	f.write(b, off)
	return len(b), nil
}

func (f *File) Seek(offset int64, whence int) (int64, error) {
	if err := f.chk("seek"); err != nil {
		return 0, err
	}
	f.d.mu.Lock()
	defer f.d.mu.Unlock()
	var base int64
	switch whence {
	case io.SeekStart:
	case io.SeekCurrent:
		base = f.off
	case io.SeekEnd:
		base = f.n.size
	default:
		return 0, perr("seek", f.name, syscall.EINVAL)
	}
	if base+offset < 0 {
		return 0, perr("seek", f.name, syscall.EINVAL)
	}
	f.off = base + offset
	return f.off, nil
}

func (f *File) Truncate(size int64) error {
	if err := f.chk("truncate"); err != nil {
		return err
	}
	f.d.hook(true, OpTruncate, f.path)
	f.d.mu.Lock()
	defer f.d.mu.Unlock()
	if f.flag&(O_WRONLY|O_RDWR) == 0 || size < 0 {
		return perr("truncate", f.name, syscall.EINVAL)
	}
	f.n.truncate(size)
	f.d.record(Op{Kind: OpTruncate, Path: f.path, Off: size})
	return nil
}

func (f *File) Sync() error {
	if err := f.chk("sync"); err != nil {
		return err
	}
	f.d.hook(true, OpFsync, f.path)
	f.d.mu.Lock()
	defer f.d.mu.Unlock()
	f.d.record(Op{Kind: OpFsync, Path: f.path})
	return nil
}

func (f *File) Close() error {
	if f == nil {
		return fs.ErrInvalid
	}
	if f.closed {
		return perr("close", f.name, fs.ErrClosed)
	}
	f.closed = true
	return nil
}

func (f *File) Chmod(FileMode) error { return nil }

type fileInfo struct {
	name  string
	size  int64
	dir   bool
	mtime int64
}

func (i fileInfo) Name() string { return i.name }
func (i fileInfo) Size() int64 {
	if i.dir {
		return 4096
	}
	return i.size
}
func (i fileInfo) Mode() FileMode {
	if i.dir {
		return fs.ModeDir | 0o770
	}
	return 0o600
}
func (i fileInfo) ModTime() time.Time         { return time.Unix(1500000000, i.mtime) }
func (i fileInfo) IsDir() bool                { return i.dir }
func (i fileInfo) Sys() any                   { return nil }
func (i fileInfo) Type() FileMode             { return i.Mode().Type() }
func (i fileInfo) Info() (fs.FileInfo, error) { return i, nil }

func (f *File) Stat() (FileInfo, error) {
	if err := f.chk("stat"); err != nil {
		return nil, err
	}
	f.d.mu.Lock()
	defer f.d.mu.Unlock()
	return fileInfo{filepath.Base(f.path), f.n.size, f.n.dir, f.n.mtime}, nil
}

func (f *File) ReadDir(n int) ([]DirEntry, error) {
	if err := f.chk("readdir"); err != nil {
		return nil, err
	}
	return f.d.ReadDir(f.path)
}

func (f *File) Readdir(n int) ([]FileInfo, error) {
	es, err := f.ReadDir(n)
	if err != nil {
		return nil, err
	}
	out := make([]FileInfo, len(es))
	for i, e := range es {
		out[i], _ = e.Info()
	}
	return out, nil
}

func (f *File) Readdirnames(n int) ([]string, error) {
	es, err := f.ReadDir(n)
	if err != nil {
		return nil, err
	}
	out := make([]string, len(es))
	for i, e := range es {
		out[i] = e.Name()
	}
	return out, nil
}

// ---- path operations ----

func (d *Device) Stat(name string) (FileInfo, error) {
	d.hook(true, 0, name)
	d.mu.Lock()
	defer d.mu.Unlock()
	n, err := d.fs.lookup(clean(name))
	if err != nil {
		return nil, perr("stat", name, err)
	}
	return fileInfo{filepath.Base(clean(name)), n.size, n.dir, n.mtime}, nil
}
func Stat(name string) (FileInfo, error)  { return dev.Stat(name) }
func Lstat(name string) (FileInfo, error) { return dev.Stat(name) }

func (d *Device) Mkdir(name string, perm FileMode) error {
	d.hook(true, OpMkdir, name)
	d.mu.Lock()
	defer d.mu.Unlock()
	p := clean(name)
	if err := d.fs.applyMkdir(p); err != nil {
		return perr("mkdir", name, err)
	}
	d.record(Op{Kind: OpMkdir, Path: p})
	return nil
}
func Mkdir(name string, perm FileMode) error { return dev.Mkdir(name, perm) }

func (d *Device) MkdirAll(name string, perm FileMode) error {
	parts := split(name)
	cur := ""
	for _, c := range parts {
		cur += "/" + c
		d.mu.Lock()
		n, err := d.fs.lookup(cur)
		d.mu.Unlock()
		if err == nil {
			if !n.dir {
				return perr("mkdir", cur, syscall.ENOTDIR)
			}
			continue
		}
		if err := d.Mkdir(cur, perm); err != nil && !IsExist(err) {
			return err
		}
	}
	return nil
}
func MkdirAll(name string, perm FileMode) error { return dev.MkdirAll(name, perm) }

func (d *Device) Remove(name string) error {
	d.hook(true, OpRemove, name)
	d.mu.Lock()
	defer d.mu.Unlock()
	p := clean(name)
	if err := d.fs.applyRemove(p); err != nil {
		return perr("remove", name, err)
	}
	d.record(Op{Kind: OpRemove, Path: p})
	return nil
}
func Remove(name string) error { return dev.Remove(name) }

func (d *Device) RemoveAll(name string) error {
	if name == "" {
		return nil
	}
	d.hook(true, OpRemoveAll, name)
	d.mu.Lock()
	defer d.mu.Unlock()
	p := clean(name)
	if _, err := d.fs.lookup(p); err != nil {
		return nil
	}
	if err := d.fs.applyRemoveAll(p); err != nil {
		return perr("unlinkat", name, err)
	}
	d.record(Op{Kind: OpRemoveAll, Path: p})
	return nil
}
func RemoveAll(name string) error { return dev.RemoveAll(name) }

func (d *Device) Rename(from, to string) error {
	d.hook(true, OpRename, from)
	d.mu.Lock()
	defer d.mu.Unlock()
	a, b := clean(from), clean(to)
	if err := d.fs.applyRename(a, b); err != nil {
		return &realos.LinkError{Op: "rename", Old: from, New: to, Err: err}
	}
	d.record(Op{Kind: OpRename, Path: a, Path2: b})
	return nil
}
func Rename(from, to string) error { return dev.Rename(from, to) }

func (d *Device) ReadDir(name string) ([]DirEntry, error) {
	d.hook(true, 0, name)
	d.mu.Lock()
	defer d.mu.Unlock()
	n, err := d.fs.lookup(clean(name))
	if err != nil {
		return nil, perr("open", name, err)
	}
	if !n.dir {
		return nil, perr("readdirent", name, syscall.ENOTDIR)
	}
	names := make([]string, 0, len(n.children))
	for k := range n.children {
		names = append(names, k)
	}
	sort.Strings(names)
	out := make([]DirEntry, len(names))
	for i, k := range names {
		c := n.children[k]
		out[i] = fileInfo{k, c.size, c.dir, c.mtime}
	}
	return out, nil
}
func ReadDir(name string) ([]DirEntry, error) { return dev.ReadDir(name) }

func (d *Device) ReadFile(name string) ([]byte, error) {
	f, err := d.OpenFile(name, O_RDONLY, 0)
	if err != nil {
		return nil, err
	}
	if f.isDir {
		return nil, perr("read", name, syscall.EISDIR)
	}
	d.mu.Lock()
	b := make([]byte, f.n.size)
	f.n.readAt(b, 0)
	d.mu.Unlock()
	return b, nil
}
func ReadFile(name string) ([]byte, error) { return dev.ReadFile(name) }

func (d *Device) WriteFile(name string, data []byte, perm FileMode) error {
	f, err := d.OpenFile(name, O_WRONLY|O_CREATE|O_TRUNC, perm)
	if err != nil {
		return err
	}
	_, err = f.Write(data)
	f.Close()
	return err
}
func WriteFile(name string, data []byte, perm FileMode) error {
	return dev.WriteFile(name, data, perm)
}

func Chmod(string, FileMode) error            { return nil }
func Chtimes(string, time.Time, time.Time) error { return nil }

// SyncAll is the replacement of syscall.Sync(): a global sync.
func SyncAll() {
	d := dev
	d.hook(true, OpSyncAll, "")
	d.mu.Lock()
	d.record(Op{Kind: OpSyncAll})
	d.mu.Unlock()
}

// ---- inspection helpers for harnesses ----

// Walk calls fn for every path under root (sorted), with its node kind, size and a content reader.
func (f *FS) Walk(root string, fn func(path string, dir bool, size int64, read func() []byte)) {
	n, err := f.lookup(clean(root))
	if err != nil {
		return
	}
	var rec func(p string, n *node)
	rec = func(p string, n *node) {
		nn := n
		fn(p, n.dir, n.size, func() []byte {
			if nn.dir {
				return nil
			}
			b := make([]byte, nn.size)
			nn.readAt(b, 0)
			return b
		})
		if n.dir {
			names := make([]string, 0, len(n.children))
			for k := range n.children {
				names = append(names, k)
			}
			sort.Strings(names)
			for _, k := range names {
				cp := p + "/" + k
				if p == "/" {
					cp = "/" + k
				}
				rec(cp, n.children[k])
			}
		}
	}
	rec(clean(root), n)
}

// Exists reports whether path exists in the tree.
func (f *FS) Exists(p string) bool { _, err := f.lookup(clean(p)); return err == nil }

// ReadAll returns the content of a regular file, or nil.
func (f *FS) ReadAll(p string) []byte {
	n, err := f.lookup(clean(p))
	if err != nil || n.dir {
		return nil
	}
	b := make([]byte, n.size)
	n.readAt(b, 0)
	return b
}

// PagesOf returns the non-hole page indices (sorted) of a file and its size; used for cheap hashing of sparse files.
func (f *FS) PagesOf(p string) (idx []int64, size int64) {
	n, err := f.lookup(clean(p))
	if err != nil || n.dir {
		return nil, 0
	}
	for k := range n.pages {
		idx = append(idx, k)
	}
	sort.Slice(idx, func(i, j int) bool { return idx[i] < idx[j] })
	return idx, n.size
}

// Page returns the raw page (nil for a hole).
func (f *FS) Page(p string, pi int64) []byte {
	n, err := f.lookup(clean(p))
	if err != nil || n.dir {
		return nil
	}
	return n.pages[pi]
}
