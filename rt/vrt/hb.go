package vrt

import (
	"fmt"
	"sort"
	"unsafe"
)

// Happens-before data-race detection inside the controlled scheduler.
//
// The cooperative scheduler orders every step of an execution, so Go's own race detector sees nothing
// in controlled mode. This file keeps the REAL happens-before relation of the execution instead:
// vector clocks advanced only by the synchronisation the code under test actually performs (mutexes,
// RW-mutexes, wait groups, once, channel operations, go statements, sync.Map operations) — never by a
// scheduler hand-off. The rewriter routes reads and writes of struct fields and package-level variables
// of the instrumented packages through R and W; two conflicting accesses that are unordered by that
// relation are a data race in the sense of the Go memory model, whatever the order in which this
// execution happened to run them. One execution therefore detects every race between the accesses it
// performs; the explorer adds the accesses that only other schedules perform.
//
// Where the exact rule is intricate the relation is over-approximated (a completed send is ordered after
// ALL earlier receives of that channel, not only the one that freed its slot): more order means fewer
// reports, never a false one.

// VC is a vector clock indexed by thread id.
type VC []int32

func (v VC) get(i int) int32 {
	if i < len(v) {
		return v[i]
	}
	return 0
}

func (v *VC) join(o VC) {
	for len(*v) < len(o) {
		*v = append(*v, 0)
	}
	for i, x := range o {
		if x > (*v)[i] {
			(*v)[i] = x
		}
	}
}

func (t *Thread) tick() {
	for len(t.clk) <= t.ID {
		t.clk = append(t.clk, 0)
	}
	t.clk[t.ID]++
}

// HBAcquire: the running thread synchronises with everything released into src.
func HBAcquire(src *VC) {
	if S == nil || S.cur == nil || S.aborting {
		return
	}
	S.cur.clk.join(*src)
}

// HBRelease: the running thread publishes its past into dst (joined with what is there already).
func HBRelease(dst *VC) {
	if S == nil || S.cur == nil || S.aborting {
		return
	}
	t := S.cur
	t.tick()
	dst.join(t.clk)
	t.tick()
}

// HBSync is an operation that both acquires and releases (channel operations, sync.Map operations).
func HBSync(v *VC) {
	HBAcquire(v)
	HBRelease(v)
}

// Channel rules of the Go memory model: the k-th send happens before the k-th receive completes; close
// happens before a receive that observes it; the k-th receive happens before the (k+cap)-th send
// completes (for the last rule the sender is ordered after ALL receives completed so far, a mild
// over-approximation).
type chanHB struct {
	q      []VC // clocks of the sends whose elements are still in the channel (FIFO)
	closed VC
	recvs  VC
}

func (s *Sched) chanState(id uintptr) *chanHB {
	if s.chanHB == nil {
		s.chanHB = map[uintptr]*chanHB{}
	}
	c := s.chanHB[id]
	if c == nil {
		c = &chanHB{}
		s.chanHB[id] = c
	}
	return c
}

func hbOn() bool { return S != nil && S.cur != nil && !S.aborting }

// hbSend: called by the sender when it hands an element to the channel.
func hbSend(id uintptr) {
	if !hbOn() {
		return
	}
	c := S.chanState(id)
	var v VC
	HBRelease(&v)
	c.q = append(c.q, v)
}

// hbSendDone: the send has completed (buffer slot free / receiver took the element).
func hbSendDone(id uintptr) {
	if !hbOn() {
		return
	}
	HBAcquire(&S.chanState(id).recvs)
}

// hbRecv: called by the receiver after it obtained an element (ok) or observed the close (!ok).
func hbRecv(id uintptr, ok bool) {
	if !hbOn() {
		return
	}
	c := S.chanState(id)
	if !ok {
		HBAcquire(&c.closed)
		return
	}
	if len(c.q) > 0 {
		HBAcquire(&c.q[0])
		c.q = c.q[1:]
	}
	HBRelease(&c.recvs)
}

func hbClose(id uintptr) {
	if !hbOn() {
		return
	}
	HBRelease(&S.chanState(id).closed)
}

// hbBarrier orders the running thread after everything the given (ended) threads did (Join).
func hbBarrier(ts []*Thread) {
	if S == nil || S.cur == nil || S.aborting {
		return
	}
	for _, t := range ts {
		if t != S.cur {
			S.cur.clk.join(t.clk)
		}
	}
}

type access struct {
	tid  int
	clk  int32
	site string
}

type shadow struct {
	w     access
	hasW  bool
	reads []access
}

// RaceObs is one pair of conflicting, unordered accesses.
type RaceObs struct {
	Var   string // the variable or field ("pkg.Type.field" / "pkg.var") as named by the rewriter
	SiteA string // "file.go:line" of the earlier access in this execution
	SiteB string
	KindA string // "read" | "write"
	KindB string
	ThrA  string
	ThrB  string
}

func (r RaceObs) Key() string {
	a, b := r.KindA+"@"+r.SiteA, r.KindB+"@"+r.SiteB
	if b < a {
		a, b = b, a
	}
	return r.Var + "|" + a + "|" + b
}

func (s *Sched) mem(p unsafe.Pointer, site string, write bool) {
	t := s.cur
	if t == nil || s.aborting || s.noRace > 0 {
		return
	}
	if s.shadow == nil {
		s.shadow = map[unsafe.Pointer]*shadow{}
		s.raceSeen = map[string]bool{}
	}
	if s.MemPoint != nil && s.MemPoint(site) {
		// a site known (from the discovery pass) to take part in a race: interleave here
		Yield(&Op{Kind: "mem", Obj: "m:" + site, Desc: site, Shared: true})
		t = s.cur
		if s.aborting {
			return
		}
	}
	sh := s.shadow[p]
	if sh == nil {
		sh = &shadow{}
		s.shadow[p] = sh // the key keeps the object reachable: its address is not reused within the execution
	}
	report := func(prev access, prevWrite bool) {
		r := RaceObs{Var: varOf(site), SiteA: lineOf(prev.site), SiteB: lineOf(site), KindA: kind(prevWrite), KindB: kind(write),
			ThrA: s.Threads[prev.tid].Name, ThrB: t.Name}
		if k := r.Key(); !s.raceSeen[k] {
			s.raceSeen[k] = true
			s.Races = append(s.Races, r)
		}
	}
	if sh.hasW && sh.w.tid != t.ID && sh.w.clk > t.clk.get(sh.w.tid) {
		report(sh.w, true)
	}
	if write {
		for _, rd := range sh.reads {
			if rd.tid != t.ID && rd.clk > t.clk.get(rd.tid) {
				report(rd, false)
			}
		}
		if t.clk.get(t.ID) == 0 {
			t.tick()
		}
		sh.w, sh.hasW, sh.reads = access{t.ID, t.clk.get(t.ID), site}, true, sh.reads[:0]
		return
	}
	if t.clk.get(t.ID) == 0 {
		t.tick()
	}
	for i := range sh.reads {
		if sh.reads[i].tid == t.ID {
			sh.reads[i] = access{t.ID, t.clk.get(t.ID), site}
			return
		}
	}
	sh.reads = append(sh.reads, access{t.ID, t.clk.get(t.ID), site})
}

func kind(w bool) string {
	if w {
		return "write"
	}
	return "read"
}

// site strings are "<var>@<file.go:line>"
func varOf(site string) string {
	for i := 0; i < len(site); i++ {
		if site[i] == '@' {
			return site[:i]
		}
	}
	return site
}

func lineOf(site string) string {
	for i := 0; i < len(site); i++ {
		if site[i] == '@' {
			return site[i+1:]
		}
	}
	return site
}

// R records a read of *p by the running thread and returns p.
func R[T any](p *T, site string) *T {
	if S != nil {
		S.mem(unsafe.Pointer(p), site, false)
	}
	return p
}

// W records a write of *p by the running thread and returns p.
func W[T any](p *T, site string) *T {
	if S != nil {
		S.mem(unsafe.Pointer(p), site, true)
	}
	return p
}

// NoRace runs fn without recording accesses (harness code that looks at server state).
func NoRace(fn func()) {
	if S == nil {
		fn()
		return
	}
	S.noRace++
	defer func() { S.noRace-- }()
	fn()
}

// RaceSites returns the sites ("var@file:line") that took part in the races of this execution.
func (s *Sched) RaceSummary() []string {
	var l []string
	for _, r := range s.Races {
		l = append(l, fmt.Sprintf("%s: %s at %s by %s / %s at %s by %s", r.Var, r.KindA, r.SiteA, r.ThrA, r.KindB, r.SiteB, r.ThrB))
	}
	sort.Strings(l)
	return l
}
