// Package vrt is the controlled runtime the instrumented marketstore code runs on.
//
// Two modes:
//   - passthrough (default): every helper performs the native Go operation. Used by the sequential
//     harnesses and by the free-running -race pass.
//   - controlled: real goroutines, one token. Only the thread holding the token runs; at every point
//     (channel op, lock op, device op, access to a package-level variable, spawn, timer) it hands the
//     token to the scheduler, which picks the next thread from the enabled set. The sequence of
//     picks at points with >= 2 options is the schedule; the explorer (mc/schedmc.go) enumerates them.
//
// The clock is virtual in both modes (strictly increasing), so WAL file names, instance ids and
// transaction ids are deterministic.
package vrt

import (
	"fmt"
	"reflect"

	"github.com/alpacahq/marketstore/v4/verif/rt/vos"
	"runtime"
	"runtime/debug"
	"sort"
	"strings"
	"sync"
	"sync/atomic"
	"time"
	"unsafe"
)

// ---------------------------------------------------------------------------------------------
// clock

var clockBase = time.Date(2021, 6, 15, 12, 0, 0, 0, time.UTC).UnixNano()
var clockNow int64 = clockBase

// SetClock sets the virtual clock (ns since epoch).
func SetClock(t time.Time) { atomic.StoreInt64(&clockNow, t.UnixNano()) }

// ResetClock puts the clock back to its base instant.
func ResetClock() { atomic.StoreInt64(&clockNow, clockBase) }

// Now returns the virtual time; every call advances it by 1µs so values never repeat.
func Now() time.Time { return time.Unix(0, atomic.AddInt64(&clockNow, 1000)).UTC() }

func Since(t time.Time) time.Duration { return Now().Sub(t) }
func Until(t time.Time) time.Duration { return t.Sub(Now()) }

// ---------------------------------------------------------------------------------------------
// scheduler state

// S is the current schedule controller (nil in passthrough mode).
var S *Sched

// Goroutines started in passthrough mode must never run vrt helpers while a controlled execution is
// active (they would be mistaken for the running thread). They are counted, and so are the ones
// currently parked in a native blocking operation; Run waits until every passthrough goroutine is
// parked or gone before it switches to controlled mode.
var nativeSpawned, nativeBlocked int32

func nativeBlock()   { atomic.AddInt32(&nativeBlocked, 1) }
func nativeUnblock() { atomic.AddInt32(&nativeBlocked, -1) }

func Controlled() bool { return S != nil }

// Aborting reports whether the current execution is being torn down (ops become no-ops).
func Aborting() bool { return S != nil && S.aborting }

type Thread struct {
	ID      int
	Name    string
	wake    chan struct{}
	op      *Op
	done    bool
	exiting bool
	started bool
	nspawn  int
	clk     VC // happens-before vector clock (hb.go)
}

// Op describes what a thread is about to do; Enabled is evaluated without side effects.
type Op struct {
	Kind    string // chan-send chan-recv select lock rlock unlock wg-wait wg go dev global sleep join quiesce once map
	Obj     string // stable object name when there is one ("" = anonymous: always a choice point)
	Shared  bool   // anonymous objects are treated as shared
	Enabled func() bool
	Low     bool // low priority: only runs when nothing else is enabled (sleep, quiesce)
	Desc    string
}

// ChoicePoint is one scheduling decision with >= 2 options.
type ChoicePoint struct {
	Options []string // "T<id>:<name>:<op desc>" or "timer:<d>"
	Chosen  int
	Step    int
	Worthy  bool // false: preempting here is equivalent to preempting at the thread's next shared operation
}

type PanicObs struct {
	Thread string
	Value  string
	Stack  string
}

type Sched struct {
	Threads []*Thread
	cur     *Thread
	Prefix  []int
	Points  []ChoicePoint
	Steps   int
	MaxStep int

	TimerBudget map[time.Duration]int // fires allowed per ticker duration
	tickers     []*Ticker

	// SharedObj decides whether an op on a named object is a choice point (persistent across
	// executions of one harness; see mc/schedmc.go). nil = everything is a choice point.
	SharedObj func(kind, obj, thread string) bool

	// Policy, when set, picks the default option at a decision beyond the prefix (scripted harnesses that
	// need a particular order, e.g. "all writers queue before the WAL writer flushes"). nil = option 0.
	Policy func(options []string) int

	aborting  bool
	Deadlock  bool
	DeadInfo  string // what every unfinished thread was waiting for when the deadlock was detected
	Livelock  bool
	Diverged  string
	Panics    []PanicObs
	finished  chan struct{}
	exitWG    sync.WaitGroup
	lowStreak int
	// forcedFires counts timer fires that happened because nothing else could run
	forcedFires int
	// NoForcedTimers: time never passes by itself (scripted harnesses: the crash histories)
	NoForcedTimers bool
	quiet     bool // setup phase of a harness: decisions are recorded but not branched on
	atomic    int // >0: the running thread is inside Atomic (no switches unless it blocks)
	unbuf     map[uintptr]*slot
	Trace     []string // optional op trace (only when KeepTrace)
	KeepTrace bool
	// PrefixDesc, when non-nil, holds for each prefix position the option list recorded by the
	// execution that generated the prefix; a mismatch while replaying is a divergence.
	PrefixOpts [][]string

	// happens-before race detection (hb.go)
	Races    []RaceObs
	MemPoint func(site string) bool // sites at which an access is also a scheduling point (known racy sites)
	chanHB   map[uintptr]*chanHB
	shadow   map[unsafe.Pointer]*shadow
	raceSeen map[string]bool
	noRace   int
}

type slot struct {
	val   reflect.Value
	full  bool
	taken bool
}

// Run executes body as thread 0 ("main") under a fresh scheduler, replaying prefix and taking
// choice 0 afterwards. It returns when body has returned (or the execution was aborted) and all
// other threads have been torn down.
func Run(prefix []int, cfg func(*Sched), body func()) *Sched {
	s := &Sched{Prefix: prefix, MaxStep: 200000, finished: make(chan struct{}), unbuf: map[uintptr]*slot{},
		TimerBudget: map[time.Duration]int{}}
	if cfg != nil {
		cfg(s)
	}
	if S != nil {
		panic("vrt.Run: nested")
	}
	for dl := time.Now().Add(5 * time.Second); atomic.LoadInt32(&nativeSpawned) != atomic.LoadInt32(&nativeBlocked) && time.Now().Before(dl); {
		runtime.Gosched()
	}
	S = s
	base := runtime.NumGoroutine()
	main := s.newThread("main")
	s.cur = main
	s.exitWG.Add(1)
	go s.root(main, body, true)
	<-s.finished
	// teardown: resume every parked thread in abort mode
	s.aborting = true
	for _, t := range s.Threads {
		if !t.done {
			select {
			case t.wake <- struct{}{}:
			default:
			}
		}
	}
	s.exitWG.Wait()
	S = nil
	for i := 0; i < 100 && runtime.NumGoroutine() > base; i++ {
		runtime.Gosched()
	}
	return s
}

func (s *Sched) newThread(name string) *Thread {
	t := &Thread{ID: len(s.Threads), Name: name, wake: make(chan struct{}, 1)}
	s.Threads = append(s.Threads, t)
	return t
}

func (s *Sched) root(t *Thread, body func(), isMain bool) {
	defer s.exitWG.Done()
	defer func() {
		if r := recover(); r != nil {
			if !s.aborting {
				s.Panics = append(s.Panics, PanicObs{Thread: t.Name, Value: fmt.Sprint(r), Stack: trimStack(string(debug.Stack()))})
			}
		}
		t.done = true
		if s.aborting {
			return
		}
		if isMain || len(s.Panics) > 0 {
			s.finish()
			return
		}
		// hand the token on
		s.switchAway(t)
	}()
	if !isMain {
		<-t.wake
		if s.aborting {
			t.exiting = true
			return
		}
	}
	t.started = true
	body()
}

func trimStack(st string) string {
	lines := strings.Split(st, "\n")
	var keep []string
	for i := 0; i < len(lines) && len(keep) < 24; i++ {
		l := lines[i]
		if strings.Contains(l, "/verif/rt/") || strings.Contains(l, "runtime/") {
			continue
		}
		keep = append(keep, strings.TrimSpace(l))
	}
	return strings.Join(keep, " | ")
}

func (s *Sched) finish() {
	select {
	case <-s.finished:
	default:
		close(s.finished)
	}
}

// switchAway is called by a thread that has ended: pick someone else or end the execution.
func (s *Sched) switchAway(t *Thread) {
	next := s.pick(nil)
	if next == nil {
		// nobody can run: if some thread is unfinished this is a deadlock unless main is among the
		// finished (main finishing ends the execution anyway).
		s.Deadlock = true
		s.DeadInfo = s.describe()
		s.finish()
		return
	}
	s.cur = next
	vos.Cur().SetThread(next.ID)
	next.wake <- struct{}{}
}

// Yield is the scheduling point: the calling thread announces op and resumes when it is picked
// (its op is then enabled and nobody else runs until its next point).
func Yield(op *Op) {
	s := S
	if s == nil {
		return
	}
	t := s.cur
	if s.aborting {
		return // only deferred functions of threads being torn down get here
	}
	if s.atomic > 0 && (op.Enabled == nil || op.Enabled()) {
		return // inside an atomic section: keep running
	}
	s.Steps++
	if s.Steps > s.MaxStep {
		s.Livelock = true
		s.abortFrom(t)
	}
	t.op = op
	if s.KeepTrace {
		s.Trace = append(s.Trace, fmt.Sprintf("T%d:%s %s %s", t.ID, t.Name, op.Kind, op.Desc))
	}
	next := s.pick(t)
	if next == nil {
		s.Deadlock = true
		s.DeadInfo = s.describe()
		s.abortFrom(t)
	}
	if next != t {
		s.cur = next
		vos.Cur().SetThread(next.ID)
		next.wake <- struct{}{}
		<-t.wake
		if s.aborting {
			t.exiting = true
			runtime.Goexit()
		}
	}
	t.op = nil
}

func (s *Sched) describe() string {
	var sb strings.Builder
	for _, t := range s.Threads {
		if t.done {
			continue
		}
		d := "not started"
		if t.op != nil {
			d = t.op.Kind + " " + t.op.Desc
		}
		fmt.Fprintf(&sb, "T%d:%s waits for [%s]; ", t.ID, t.Name, d)
	}
	return sb.String()
}

// abortFrom ends the execution from inside thread t (never returns).
func (s *Sched) abortFrom(t *Thread) {
	s.finish()
	<-t.wake // parked until teardown
	t.exiting = true
	runtime.Goexit()
}

func (t *Thread) enabled() bool {
	if t.done {
		return false
	}
	if !t.started {
		return true
	}
	if t.op == nil {
		return false // running thread without pending op (cannot happen for parked threads)
	}
	return t.op.Enabled == nil || t.op.Enabled()
}

func (t *Thread) low() bool { return t.started && t.op != nil && t.op.Low }

// pick decides who runs next. cur is the yielding thread (nil when it has ended).
func (s *Sched) pick(cur *Thread) *Thread {
	for {
		var opts []*Thread
		var lows []*Thread
		if cur != nil && cur.enabled() {
			if cur.low() {
				lows = append(lows, cur)
			} else {
				opts = append(opts, cur)
			}
		}
		for _, t := range s.Threads {
			if t == cur || !t.enabled() {
				continue
			}
			if t.low() {
				lows = append(lows, t)
			} else {
				opts = append(opts, t)
			}
		}
		// Timers: while some ordinary thread can run, a ticker may fire early only within its budget (a
		// deviation). When NO ordinary thread can run, time simply passes: any ticker may fire (the
		// shortest first by default), bounded by forcedFires so that a real deadlock is still detected.
		forced := len(opts) == 0
		var timers []*Ticker
		for _, k := range s.tickers {
			if !k.stopped && len(k.C) == 0 && (s.TimerBudget[k.D] > 0 || (forced && s.forcedFires < 30 && !s.NoForcedTimers)) {
				timers = append(timers, k)
			}
		}
		sort.SliceStable(timers, func(i, j int) bool { return timers[i].D < timers[j].D })
		// a thread waiting in Quiesce runs as soon as no ordinary thread can run, BEFORE any timer fires
		// by itself (scripted harnesses decide themselves when time passes)
		if len(opts) == 0 {
			for _, t := range lows {
				if t.op.Kind == "quiesce" {
					s.lowStreak = 0
					return t
				}
			}
		}
		nopt := len(opts) + len(timers)
		if nopt == 0 {
			if len(lows) == 0 {
				return nil
			}
			s.lowStreak++
			if s.lowStreak > 200 {
				s.Livelock = true
				return nil
			}
			return lows[0]
		}
		s.lowStreak = 0
		choice := 0
		isChoice := nopt >= 2 // every decision is recorded (stable numbering); the explorer branches only at worthy ones
		if isChoice {
			idx := len(s.Points)
			if idx < len(s.Prefix) {
				choice = s.Prefix[idx]
				if choice >= nopt {
					s.Diverged = fmt.Sprintf("choice %d at point %d out of range (%d options)", choice, idx, nopt)
					return nil
				}
			}
			cp := ChoicePoint{Chosen: choice, Step: s.Steps, Worthy: s.choiceWorthy(cur, opts)}
			for _, t := range opts {
				d := "start"
				if t.op != nil {
					d = t.op.Kind + " " + t.op.Desc
				}
				cp.Options = append(cp.Options, fmt.Sprintf("T%d:%s:%s", t.ID, t.Name, d))
			}
			for _, k := range timers {
				cp.Options = append(cp.Options, "timer:"+k.D.String())
			}
			if idx >= len(s.Prefix) && s.Policy != nil {
				if c := s.Policy(cp.Options); c >= 0 && c < nopt {
					choice = c
					cp.Chosen = c
				}
			}
			if idx < len(s.PrefixOpts) && s.PrefixOpts[idx] != nil {
				if strings.Join(s.PrefixOpts[idx], "|") != strings.Join(cp.Options, "|") {
					s.Diverged = fmt.Sprintf("point %d: options %v, recorded %v", idx, cp.Options, s.PrefixOpts[idx])
					return nil
				}
			}
			s.Points = append(s.Points, cp)
		}
		if choice < len(opts) {
			return opts[choice]
		}
		k := timers[choice-len(opts)]
		if forced {
			s.forcedFires++
		} else {
			s.TimerBudget[k.D]--
		}
		k.C <- Now()
		if s.KeepTrace {
			s.Trace = append(s.Trace, "timer:"+k.D.String())
		}
		// a timer fired: re-evaluate
	}
}

// choiceWorthy: is this decision recorded as a choice point? Always when the current thread is
// blocked or gone (who runs next matters); otherwise only if the current thread's pending op is on
// a shared (or anonymous) object: preempting before an op on a thread-private object is equivalent
// to preempting before that thread's next shared op.
func (s *Sched) choiceWorthy(cur *Thread, opts []*Thread) bool {
	if s.quiet {
		return false
	}
	if cur == nil || len(opts) == 0 || opts[0] != cur {
		return true
	}
	op := cur.op
	if op == nil || op.Obj == "" || s.SharedObj == nil {
		return true
	}
	return s.SharedObj(op.Kind, op.Obj, cur.Name)
}

// device operations are scheduling points in controlled mode
func init() {
	vos.PreOp = func(kind vos.OpKind, path string) {
		if S == nil || S.aborting {
			return
		}
		k := "dev-w"
		if kind == 0 {
			k = "dev-r"
		}
		Yield(&Op{Kind: k, Obj: path, Desc: kind.String() + " " + path})
	}
}

// AllowTimer lets the ticker(s) of duration d fire n more times by themselves (when nothing else can run,
// or earlier as a deviation chosen by the explorer).
func AllowTimer(d time.Duration, n int) {
	if S != nil {
		S.TimerBudget[d] += n
	}
}

// ---------------------------------------------------------------------------------------------
// threads

// Go starts fn as a new thread.
func Go(name string, fn func()) {
	s := S
	if s == nil {
		atomic.AddInt32(&nativeSpawned, 1)
		go func() {
			defer atomic.AddInt32(&nativeSpawned, -1)
			fn()
		}()
		return
	}
	if s.aborting {
		return
	}
	par := s.cur
	par.nspawn++
	t := s.newThread(fmt.Sprintf("%s#%d.%d", name, par.ID, par.nspawn))
	par.tick()
	t.clk = append(VC{}, par.clk...)
	par.tick()
	s.exitWG.Add(1)
	go s.root(t, fn, false)
	Yield(&Op{Kind: "go", Desc: name})
}

// Spawn is Go with an explicit thread name (harness threads: "W1", "R1", ...).
func Spawn(name string, fn func()) *Thread {
	s := S
	if s == nil {
		panic("vrt.Spawn outside controlled mode")
	}
	t := s.newThread(name)
	if s.cur != nil {
		s.cur.tick()
		t.clk = append(VC{}, s.cur.clk...)
		s.cur.tick()
	}
	s.exitWG.Add(1)
	go s.root(t, fn, false)
	return t
}

// Join blocks until all given threads have ended.
func Join(ts ...*Thread) {
	Yield(&Op{Kind: "join", Enabled: func() bool {
		for _, t := range ts {
			if !t.done {
				return false
			}
		}
		return true
	}})
	hbBarrier(ts)
}

// Quiesce blocks until no other thread can run (and no timer will fire by itself).
func Quiesce() {
	Yield(&Op{Kind: "quiesce", Low: true})
	// no happens-before edge: a quiet system is an observation of the scheduler, not a synchronisation the
	// code performs (a real client calling at this moment is not ordered after the background goroutines)
}

// Atomic runs fn without scheduling points (the harness's observation of "the state at this instant").
// If fn blocks on something another thread holds, scheduling resumes normally.
func Atomic(fn func()) {
	if S == nil {
		fn()
		return
	}
	S.atomic++
	defer func() { S.atomic-- }()
	fn()
}

// Branching switches exploration of alternatives off (setup phase of a harness) and on again.
func Branching(on bool) {
	if S != nil {
		S.quiet = !on
	}
}

// Point is a plain scheduling point (access to a package-level variable).
func Point(name string) {
	if S == nil {
		return
	}
	Yield(&Op{Kind: "global", Obj: name, Desc: name})
}

// CurrentThread returns the running thread's name ("" in passthrough mode).
func CurrentThread() string {
	if S == nil || S.cur == nil {
		return ""
	}
	return S.cur.Name
}

func CurrentThreadID() int {
	if S == nil || S.cur == nil {
		return 0
	}
	return S.cur.ID
}

// ---------------------------------------------------------------------------------------------
// channels (storage is the real Go channel; unbuffered ones use a rendez-vous slot)

func chanID(ch any) uintptr { return reflect.ValueOf(ch).Pointer() }

func recvReady(v reflect.Value) bool {
	if v.IsNil() {
		return false
	}
	if v.Len() > 0 {
		return true
	}
	s := S
	if v.Cap() == 0 {
		if sl := s.unbuf[v.Pointer()]; sl != nil && sl.full && !sl.taken {
			return true
		}
	}
	return isClosed(v)
}

// isClosed probes a channel with no buffered elements (non-destructive: a receive can only succeed if
// the channel is closed, since all senders are parked threads of this scheduler).
func isClosed(v reflect.Value) bool {
	if v.Type().ChanDir()&reflect.RecvDir == 0 {
		return false
	}
	x, ok := v.TryRecv()
	return x.IsValid() && !ok
}

func sendReady(v reflect.Value) bool {
	if v.IsNil() {
		return false
	}
	if v.Cap() > 0 {
		return v.Len() < v.Cap()
	}
	sl := S.unbuf[v.Pointer()]
	return sl == nil || !sl.full
}

func doRecv(v reflect.Value) (reflect.Value, bool) {
	x, ok := doRecv0(v)
	hbRecv(v.Pointer(), ok)
	return x, ok
}

func doRecv0(v reflect.Value) (reflect.Value, bool) {
	if v.Len() > 0 {
		return v.Recv()
	}
	if v.Cap() == 0 {
		if sl := S.unbuf[v.Pointer()]; sl != nil && sl.full && !sl.taken {
			sl.taken = true
			return sl.val, true
		}
	}
	return v.Recv() // closed
}

func doSend(v reflect.Value, x reflect.Value) {
	hbSend(v.Pointer())
	if v.Cap() > 0 {
		v.Send(x) // cannot block: len<cap checked and we hold the token
		hbSendDone(v.Pointer())
		return
	}
	s := S
	sl := s.unbuf[v.Pointer()]
	if sl == nil {
		sl = &slot{}
		s.unbuf[v.Pointer()] = sl
	}
	sl.val, sl.full, sl.taken = x, true, false
	// block until the receiver has taken it
	Yield(&Op{Kind: "chan-send-wait", Shared: true, Enabled: func() bool { return sl.taken }})
	sl.full, sl.taken = false, false
	sl.val = reflect.Value{}
	hbSendDone(v.Pointer())
}

func Send[T any](ch chan<- T, v T) {
	if S == nil {
		nativeBlock()
		ch <- v
		nativeUnblock()
		return
	}
	if S.aborting {
		Yield(nil)
		return
	}
	rv := reflect.ValueOf(ch)
	Yield(&Op{Kind: "chan-send", Shared: true, Enabled: func() bool { return sendReady(rv) }})
	if rv.Cap() > 0 {
		hbSend(rv.Pointer())
		ch <- v
		hbSendDone(rv.Pointer())
		return
	}
	doSend(rv, reflect.ValueOf(&v).Elem())
}

func Recv[T any](ch <-chan T) T {
	v, _ := Recv2(ch)
	return v
}

func Recv2[T any](ch <-chan T) (T, bool) {
	if S == nil {
		nativeBlock()
		v, ok := <-ch
		nativeUnblock()
		return v, ok
	}
	if S.aborting {
		Yield(nil)
		var z T
		return z, false
	}
	rv := reflect.ValueOf(ch)
	Yield(&Op{Kind: "chan-recv", Shared: true, Enabled: func() bool { return recvReady(rv) }})
	x, ok := doRecv(rv)
	if !ok {
		var z T
		return z, false
	}
	return x.Interface().(T), true
}

func Close[T any](ch chan<- T) {
	if S != nil {
		Yield(&Op{Kind: "chan-close", Shared: true})
		hbClose(reflect.ValueOf(ch).Pointer())
	}
	close(ch)
}

// Sel is the result of Select.
type Sel struct {
	I  int
	V  reflect.Value
	OK bool
}

type Case struct {
	Send bool
	Ch   reflect.Value
	Val  any
}

func CaseRecv(ch any) Case { return Case{Ch: reflect.ValueOf(ch)} }
func CaseSend(ch any, v any) Case {
	return Case{Send: true, Ch: reflect.ValueOf(ch), Val: v}
}

func (c Case) sendVal() reflect.Value {
	et := c.Ch.Type().Elem()
	if c.Val == nil {
		return reflect.Zero(et)
	}
	v := reflect.ValueOf(c.Val)
	if v.Type() != et {
		v = v.Convert(et)
	}
	return v
}

// Select implements a select statement. site names the statement; dflt says whether it has a default.
func Select(site string, dflt bool, cases ...Case) Sel {
	if S == nil {
		rc := make([]reflect.SelectCase, 0, len(cases)+1)
		for _, c := range cases {
			if c.Send {
				rc = append(rc, reflect.SelectCase{Dir: reflect.SelectSend, Chan: c.Ch, Send: c.sendVal()})
			} else {
				rc = append(rc, reflect.SelectCase{Dir: reflect.SelectRecv, Chan: c.Ch})
			}
		}
		if dflt {
			rc = append(rc, reflect.SelectCase{Dir: reflect.SelectDefault})
		}
		nativeBlock()
		i, v, ok := reflect.Select(rc)
		nativeUnblock()
		if dflt && i == len(cases) {
			return Sel{I: -1}
		}
		return Sel{I: i, V: v, OK: ok}
	}
	if S.aborting {
		Yield(nil)
		return Sel{I: -1}
	}
	ready := func() []int {
		var r []int
		for i, c := range cases {
			if c.Ch.IsNil() {
				continue
			}
			if c.Send && sendReady(c.Ch) || !c.Send && recvReady(c.Ch) {
				r = append(r, i)
			}
		}
		return r
	}
	Yield(&Op{Kind: "select", Shared: true, Desc: site, Enabled: func() bool { return dflt || len(ready()) > 0 }})
	r := ready()
	if len(r) == 0 {
		return Sel{I: -1}
	}
	// Go picks uniformly among ready cases: a choice the explorer owns.
	k := 0
	if len(r) > 1 {
		k = EnvChoice("select:"+site, len(r))
	}
	i := r[k]
	c := cases[i]
	if c.Send {
		doSend(c.Ch, c.sendVal())
		return Sel{I: i}
	}
	v, ok := doRecv(c.Ch)
	return Sel{I: i, V: v, OK: ok}
}

func SelVal[T any](ch <-chan T, s Sel) T {
	if !s.OK || !s.V.IsValid() {
		var z T
		return z
	}
	return s.V.Interface().(T)
}

func SelVal2[T any](ch <-chan T, s Sel) (T, bool) { return SelVal(ch, s), s.OK }

// EnvChoice asks the explorer for an environment answer in [0,n); 0 is the default. It is recorded as
// a choice point like a scheduling decision.
func EnvChoice(name string, n int) int {
	s := S
	if s == nil || n <= 1 {
		return 0
	}
	idx := len(s.Points)
	choice := 0
	if idx < len(s.Prefix) {
		choice = s.Prefix[idx]
		if choice >= n {
			s.Diverged = fmt.Sprintf("env choice %d at point %d out of range (%d)", choice, idx, n)
			s.abortFrom(s.cur)
		}
	}
	cp := ChoicePoint{Chosen: choice, Step: s.Steps, Worthy: true}
	for i := 0; i < n; i++ {
		cp.Options = append(cp.Options, fmt.Sprintf("env:%s=%d", name, i))
	}
	if idx < len(s.PrefixOpts) && s.PrefixOpts[idx] != nil {
		if strings.Join(s.PrefixOpts[idx], "|") != strings.Join(cp.Options, "|") {
			s.Diverged = fmt.Sprintf("point %d: options %v, recorded %v", idx, cp.Options, s.PrefixOpts[idx])
			s.abortFrom(s.cur)
		}
	}
	s.Points = append(s.Points, cp)
	return choice
}

// ---------------------------------------------------------------------------------------------
// time

type Ticker struct {
	C       chan time.Time
	D       time.Duration
	stopped bool
}

func NewTicker(d time.Duration) *Ticker {
	k := &Ticker{C: make(chan time.Time, 1), D: d}
	if S != nil {
		S.tickers = append(S.tickers, k)
	}
	return k
}

func (k *Ticker) Stop()                 { k.stopped = true }
func (k *Ticker) Reset(d time.Duration) { k.D = d; k.stopped = false }

// Fire makes the ticker(s) with duration d tick once (script mode). Returns false if none exists.
func Fire(d time.Duration) bool {
	if S == nil {
		return false
	}
	ok := false
	for _, k := range S.tickers {
		if k.D == d && !k.stopped && len(k.C) == 0 {
			k.C <- Now()
			ok = true
		}
	}
	return ok
}

func Sleep(d time.Duration) {
	atomic.AddInt64(&clockNow, int64(d))
	if S == nil {
		runtime.Gosched()
		return
	}
	Yield(&Op{Kind: "sleep", Low: true})
}

func After(d time.Duration) <-chan time.Time {
	k := NewTicker(d)
	return k.C
}

func Tick(d time.Duration) <-chan time.Time { return NewTicker(d).C }

// ---------------------------------------------------------------------------------------------
// maps

type Item[K comparable, V any] struct {
	K K
	m map[K]V
}

func (it Item[K, V]) Get() (V, bool) { v, ok := it.m[it.K]; return v, ok }

// MapOrder, when set, permutes the canonical key order at a site (choice sites of harnesses).
var MapOrder func(site string, n int) []int

// MapItems returns the entries of m in canonical (sorted-key) order.
func MapItems[M ~map[K]V, K comparable, V any](m M, site string) []Item[K, V] {
	keys := make([]K, 0, len(m))
	for k := range m {
		keys = append(keys, k)
	}
	sortKeys(keys)
	if MapOrder != nil && len(keys) > 1 {
		if p := MapOrder(site, len(keys)); p != nil {
			nk := make([]K, len(keys))
			for i, j := range p {
				nk[i] = keys[j]
			}
			keys = nk
		}
	}
	out := make([]Item[K, V], len(keys))
	for i, k := range keys {
		out[i] = Item[K, V]{K: k, m: m}
	}
	return out
}

func sortKeys[K comparable](keys []K) {
	if len(keys) < 2 {
		return
	}
	switch ks := any(keys).(type) {
	case []string:
		sort.Strings(ks)
	case []int:
		sort.Ints(ks)
	case []int64:
		sort.Slice(ks, func(i, j int) bool { return ks[i] < ks[j] })
	default:
		strs := make([]string, len(keys))
		for i, k := range keys {
			strs[i] = fmt.Sprintf("%v", k)
		}
		idx := make([]int, len(keys))
		for i := range idx {
			idx[i] = i
		}
		sort.SliceStable(idx, func(a, b int) bool { return strs[idx[a]] < strs[idx[b]] })
		cp := make([]K, len(keys))
		copy(cp, keys)
		for i, j := range idx {
			keys[i] = cp[j]
		}
	}
}

// ---------------------------------------------------------------------------------------------
// globals reset (generated per instrumented package by tools/instr)

var resets []func()
var resetNames []string

func RegisterReset(pkg string, f func()) { resets = append(resets, f); resetNames = append(resetNames, pkg) }

// ResetGlobals restores the plain package-level variables of the instrumented packages.
func ResetGlobals() {
	for _, f := range resets {
		f()
	}
}
