// Package vsync replaces package "sync" in the instrumented packages. In passthrough mode every type
// delegates to the real primitive; in controlled mode lock state is plain data (one token) and every
// operation is a scheduling point with an enabledness predicate, so deadlocks are detected.
package vsync

import (
	"fmt"
	"sync"
	"unsafe"

	"github.com/alpacahq/marketstore/v4/verif/rt/vrt"
)

type (
	Locker = sync.Locker
	Pool   = sync.Pool
	Cond   = sync.Cond
)

func NewCond(l Locker) *Cond { return sync.NewCond(l) }

func id(p unsafe.Pointer) string { return fmt.Sprintf("%p", p) }

type Mutex struct {
	real sync.Mutex
	held bool
	hb   vrt.VC // happens-before: what the last unlockers had done
}

func (m *Mutex) Lock() {
	if !vrt.Controlled() {
		m.real.Lock()
		return
	}
	if vrt.Aborting() {
		vrt.Yield(nil)
		return
	}
	vrt.Yield(&vrt.Op{Kind: "lock", Shared: true, Enabled: func() bool { return !m.held }})
	m.held = true
	vrt.HBAcquire(&m.hb)
}

func (m *Mutex) TryLock() bool {
	if !vrt.Controlled() {
		return m.real.TryLock()
	}
	vrt.Yield(&vrt.Op{Kind: "trylock", Shared: true})
	if m.held {
		return false
	}
	m.held = true
	vrt.HBAcquire(&m.hb)
	return true
}

func (m *Mutex) Unlock() {
	if !vrt.Controlled() {
		m.real.Unlock()
		return
	}
	if vrt.Aborting() {
		return
	}
	if !m.held {
		panic("sync: unlock of unlocked mutex")
	}
	vrt.HBRelease(&m.hb)
	m.held = false
	vrt.Yield(&vrt.Op{Kind: "unlock", Shared: true})
}

type RWMutex struct {
	real    sync.RWMutex
	writer  bool
	readers int
	hbW     vrt.VC // released by writers
	hbR     vrt.VC // released by readers
}

func (m *RWMutex) Lock() {
	if !vrt.Controlled() {
		m.real.Lock()
		return
	}
	if vrt.Aborting() {
		vrt.Yield(nil)
		return
	}
	vrt.Yield(&vrt.Op{Kind: "lock", Shared: true, Enabled: func() bool { return !m.writer && m.readers == 0 }})
	m.writer = true
	vrt.HBAcquire(&m.hbW)
	vrt.HBAcquire(&m.hbR)
}

func (m *RWMutex) Unlock() {
	if !vrt.Controlled() {
		m.real.Unlock()
		return
	}
	if vrt.Aborting() {
		return
	}
	if !m.writer {
		panic("sync: Unlock of unlocked RWMutex")
	}
	vrt.HBRelease(&m.hbW)
	m.writer = false
	vrt.Yield(&vrt.Op{Kind: "unlock", Shared: true})
}

func (m *RWMutex) RLock() {
	if !vrt.Controlled() {
		m.real.RLock()
		return
	}
	if vrt.Aborting() {
		vrt.Yield(nil)
		return
	}
	vrt.Yield(&vrt.Op{Kind: "rlock", Shared: true, Enabled: func() bool { return !m.writer }})
	m.readers++
	vrt.HBAcquire(&m.hbW)
}

func (m *RWMutex) RUnlock() {
	if !vrt.Controlled() {
		m.real.RUnlock()
		return
	}
	if vrt.Aborting() {
		return
	}
	if m.readers <= 0 {
		panic("sync: RUnlock of unlocked RWMutex")
	}
	vrt.HBRelease(&m.hbR)
	m.readers--
	vrt.Yield(&vrt.Op{Kind: "runlock", Shared: true})
}

func (m *RWMutex) RLocker() Locker { return (*rlocker)(m) }

type rlocker RWMutex

func (r *rlocker) Lock()   { (*RWMutex)(r).RLock() }
func (r *rlocker) Unlock() { (*RWMutex)(r).RUnlock() }

type WaitGroup struct {
	real sync.WaitGroup
	n    int
	hb   vrt.VC
}

func (w *WaitGroup) Add(d int) {
	if !vrt.Controlled() {
		w.real.Add(d)
		return
	}
	if vrt.Aborting() {
		return
	}
	if d < 0 {
		vrt.HBRelease(&w.hb)
	}
	w.n += d
	if w.n < 0 {
		panic("sync: negative WaitGroup counter")
	}
	vrt.Yield(&vrt.Op{Kind: "wg", Shared: true})
}

func (w *WaitGroup) Done() { w.Add(-1) }

func (w *WaitGroup) Wait() {
	if !vrt.Controlled() {
		w.real.Wait()
		return
	}
	if vrt.Aborting() {
		vrt.Yield(nil)
		return
	}
	vrt.Yield(&vrt.Op{Kind: "wg-wait", Shared: true, Enabled: func() bool { return w.n == 0 }})
	vrt.HBAcquire(&w.hb)
}

type Once struct {
	real sync.Once
	mu   Mutex
	done bool
	hb   vrt.VC
}

func (o *Once) Do(f func()) {
	if !vrt.Controlled() {
		o.real.Do(f)
		return
	}
	if o.done {
		vrt.HBAcquire(&o.hb)
		return
	}
	o.mu.Lock()
	defer o.mu.Unlock()
	if !o.done {
		defer func() { o.done = true; vrt.HBRelease(&o.hb) }()
		f()
	} else {
		vrt.HBAcquire(&o.hb)
	}
}

// Map wraps sync.Map; every operation is a scheduling point.
type Map struct {
	m  sync.Map
	hb vrt.VC
}

func (m *Map) pt() {
	if vrt.Controlled() && !vrt.Aborting() {
		vrt.Yield(&vrt.Op{Kind: "map", Shared: true})
		vrt.HBSync(&m.hb)
	}
}
func (m *Map) Load(k any) (any, bool)               { m.pt(); return m.m.Load(k) }
func (m *Map) Store(k, v any)                       { m.pt(); m.m.Store(k, v) }
func (m *Map) LoadOrStore(k, v any) (any, bool)     { m.pt(); return m.m.LoadOrStore(k, v) }
func (m *Map) LoadAndDelete(k any) (any, bool)      { m.pt(); return m.m.LoadAndDelete(k) }
func (m *Map) Delete(k any)                         { m.pt(); m.m.Delete(k) }
func (m *Map) Swap(k, v any) (any, bool)            { m.pt(); return m.m.Swap(k, v) }
func (m *Map) CompareAndSwap(k, o, n any) bool      { m.pt(); return m.m.CompareAndSwap(k, o, n) }
func (m *Map) CompareAndDelete(k, o any) bool       { m.pt(); return m.m.CompareAndDelete(k, o) }
func (m *Map) Range(f func(k, v any) bool) {
	m.pt()
	// canonical order: collect then sort by printed key, so iteration is deterministic
	type kv struct {
		k, v any
		s    string
	}
	var all []kv
	m.m.Range(func(k, v any) bool { all = append(all, kv{k, v, fmt.Sprint(k)}); return true })
	for i := 1; i < len(all); i++ {
		for j := i; j > 0 && all[j].s < all[j-1].s; j-- {
			all[j], all[j-1] = all[j-1], all[j]
		}
	}
	for _, e := range all {
		if _, ok := m.m.Load(e.k); !ok {
			continue
		}
		if !f(e.k, e.v) {
			return
		}
	}
}

func OnceFunc(f func()) func() { return sync.OnceFunc(f) }
