//go:build verif

package session

// VerifLoad exposes the \load command handler to the C33 check.
func (c *Client) VerifLoad(line string) error { return c.load(line) }
