//go:build verif

package executor

import "github.com/alpacahq/marketstore/v4/executor/wal"

// VerifSerializeTG exposes the transaction-group encoder to the C28 round-trip check.
func VerifSerializeTG(tgID int64, cmds []*wal.WriteCommand) ([]byte, map[string][]wal.OffsetIndexBuffer) {
	return serializeTG(tgID, cmds)
}
